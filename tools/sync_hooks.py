#!/usr/bin/env python3
# Adds every "verif:" commit of /repo that MANIFEST.hooks.source_commits does not list yet.
import json, subprocess
m = json.load(open('/verif/MANIFEST.json'))
have = m['hooks']['source_commits']
for line in reversed(subprocess.check_output(['git', '-C', '/repo', 'log', '--format=%h %s']).decode().splitlines()):
    h, msg = line.split(' ', 1)
    if msg.startswith('verif:') and not any(h.startswith(x[:7]) or x.startswith(h[:7]) for x in have):
        have.append(h[:8]); print('added', h, msg)
json.dump(m, open('/verif/MANIFEST.json', 'w'), indent=1)
