package asciiwriter

// Stand-ins for property C10 on the real asciiwriter, injected with go test -overlay by /verif.
// TestGovcStandinSafeASCII is COMPLETE for SafeASCII (all 256 bytes).  TestGovcStandinASCIILayout is a
// BOUNDED check (not a proof): widths 1..64, streams of at most 2 lines + 2 cells, every start column,
// every split into at most 3 Writes.

import (
	"bytes"
	"fmt"
	"os"
	"strings"
	"testing"
)

func TestGovcStandinSafeASCII(t *testing.T) {
	evals, fails := 0, 0
	for c := 0; c < 256; c++ {
		evals++
		want := "."
		if c >= 32 && c <= 126 {
			want = string([]byte{byte(c)})
		}
		if got := SafeASCII(byte(c)); got != want {
			fails++
			fmt.Printf("STANDIN-FAIL safe-ascii-table class=wrong-char input=SafeASCII(%d)=%q want %q\n", c, got, want)
		}
	}
	fmt.Printf("STANDIN safe-ascii-table evaluations=%d failures=%d\n", evals, fails)
}

func govcExpectASCII(width, start int, data []byte) string {
	var rows []string
	var cur strings.Builder
	total := start + len(data)
	for k := 0; k < total; k++ {
		if k >= start {
			cur.WriteString(SafeASCII(data[k-start]))
		} else {
			cur.WriteString(" ")
		}
		if k%width == width-1 || k == total-1 {
			rows = append(rows, cur.String())
			cur.Reset()
		}
	}
	return strings.Join(rows, "\n")
}

func TestGovcStandinASCIILayout(t *testing.T) {
	evals, fails := 0, 0
	perClass := map[string]int{}
	for width := 1; width <= 64; width++ {
		for start := 0; start < width; start++ {
			maxN := 2*width + 2 - start
			if maxN > 40 {
				maxN = 40
			}
			if os.Getenv("VERIF_TIER") == "thorough" {
				// thorough tier: up to three lines plus two cells, at most 100 bytes
				maxN = 3*width + 2 - start
				if maxN > 100 {
					maxN = 100
				}
			}
			for n := 1; n <= maxN; n++ {
				data := make([]byte, n)
				for i := range data {
					data[i] = byte(33 + (37*i+11*width+start)%90)
				}
				want := govcExpectASCII(width, start, data)
				step := 1
				if n > 12 {
					step = n / 6
					if os.Getenv("VERIF_TIER") == "thorough" {
						step = (n + 15) / 16
					}
				}
				for a := 0; a <= n; a += step {
					for b := a; b <= n; b += step {
						evals++
						var out bytes.Buffer
						w := New(&out, width, start, SafeASCII)
						for _, part := range [][]byte{data[:a], data[a:b], data[b:]} {
							if len(part) == 0 && (a != 0 || b != n) {
								continue
							}
							if _, err := w.Write(part); err != nil {
								t.Fatal(err)
							}
						}
						if got := out.String(); got != want {
							fails++
							perClass["layout"]++
							if perClass["layout"] <= 3 {
								fmt.Printf("STANDIN-FAIL ascii-layout class=layout input=width=%d start=%d n=%d cuts=%d,%d got=%q want=%q\n", width, start, n, a, b, got, want)
							}
						}
					}
				}
			}
		}
	}
	fmt.Printf("STANDIN ascii-layout evaluations=%d failures=%d\n", evals, fails)
}
