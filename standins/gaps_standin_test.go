package ranges

// Bounded stand-in (NOT a proof): exhaustive check of the end-to-end clauses of property C04 on the
// real Gaps for all small inputs.  Injected with go test -overlay by /verif's C04 check.

import (
	"fmt"
	"os"
	"testing"
)

func TestGovcStandinGaps(t *testing.T) {
	evals, fails := 0, 0
	perClass := map[string]int{}
	report := func(class string, total Range, rs []Range, gaps []Range, why string) {
		fails++
		perClass[class]++
		if perClass[class] <= 3 { // the first examples of every class; all classes are always reported
			fmt.Printf("STANDIN-FAIL gaps-cover class=%s input=Gaps(%v,%v)=%v %s\n", class, total, rs, gaps, why)
		}
	}
	maxTotal, maxRanges := int64(7), 3
	if os.Getenv("VERIF_TIER") == "thorough" {
		maxTotal, maxRanges = 8, 4 // thorough tier: every list of up to 4 ranges inside totals of up to 8 bits
	}
	for tl := int64(0); tl <= maxTotal; tl++ {
		total := Range{Start: 0, Len: tl}
		var all []Range
		for s := int64(0); s <= tl; s++ {
			for l := int64(0); s+l <= tl; l++ {
				all = append(all, Range{Start: s, Len: l})
			}
		}
		var rec func(cur []Range, depth int)
		rec = func(cur []Range, depth int) {
			in := append([]Range{}, cur...)
			gaps := Gaps(total, append([]Range{}, cur...))
			evals++
			covered := func(b int64) bool {
				for _, r := range in {
					if r.Start <= b && b < r.Start+r.Len {
						return true
					}
				}
				return false
			}
			inGap := func(b int64) bool {
				for _, g := range gaps {
					if g.Start <= b && b < g.Start+g.Len {
						return true
					}
				}
				return false
			}
			for b := int64(0); b < tl; b++ {
				c, g := covered(b), inGap(b)
				if c && g {
					report("overlap", total, in, gaps, fmt.Sprintf("bit %d is in a range and in a gap", b))
					break
				}
				if !c && !g {
					// classify: is the lost bit a one-bit hole between two ranges?
					// classify: is the lost bit a single uncovered bit between a field ending at b and a
					// field (possibly empty) starting at b+1 -- the "+1" merge rule?
					class := "lost-bit"
					endsAt, startsAfter := false, false
					for _, r := range in {
						if r.Len > 0 && r.Start+r.Len == b {
							endsAt = true
						}
						if r.Start == b+1 {
							startsAfter = true
						}
					}
					if endsAt && startsAfter {
						class = "one-bit-hole"
					}
					report(class, total, in, gaps, fmt.Sprintf("bit %d is in no range and in no gap", b))
					break
				}
			}
			for _, g := range gaps {
				if g.Len < 0 || g.Start < 0 || g.Start+g.Len > tl {
					report("outside", total, in, gaps, "gap outside total")
					break
				}
			}
			if depth == maxRanges {
				return
			}
			for _, r := range all {
				rec(append(cur, r), depth+1)
			}
		}
		rec(nil, 0)
	}
	fmt.Printf("STANDIN gaps-cover evaluations=%d failures=%d\n", evals, fails)
}
