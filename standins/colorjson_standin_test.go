package colorjson

// Stand-in for property C10 (JSON output is valid JSON equal to the value, integers of any magnitude
// exact), injected with go test -overlay by /verif.  BOUNDED (not a proof): a grid of integers, big
// integers, floats over the whole exponent range, strings with escapes and small nested values is
// encoded with the real Encoder (with and without indentation) and parsed back with encoding/json.

import (
	"bytes"
	"encoding/json"
	"fmt"
	"math"
	"math/big"
	"os"
	"testing"
)

func govcNumEqual(got json.Number, want any) bool {
	g, ok := new(big.Float).SetPrec(200).SetString(string(got))
	if !ok {
		return false
	}
	switch w := want.(type) {
	case int:
		return g.Cmp(new(big.Float).SetPrec(200).SetInt64(int64(w))) == 0
	case *big.Int:
		return g.Cmp(new(big.Float).SetPrec(200).SetInt(w)) == 0
	case float64:
		if math.IsInf(w, 0) {
			w = math.Copysign(math.MaxFloat64, w)
		}
		// the shortest representation must read back as the same binary64
		f, _ := g.Float64()
		return f == w
	}
	return false
}

func govcEqual(got any, want any) bool {
	switch w := want.(type) {
	case nil:
		return got == nil
	case bool:
		g, ok := got.(bool)
		return ok && g == w
	case string:
		g, ok := got.(string)
		return ok && g == w
	case int, *big.Int, float64:
		if f, isF := w.(float64); isF && math.IsNaN(f) {
			return got == nil
		}
		g, ok := got.(json.Number)
		return ok && govcNumEqual(g, want)
	case []any:
		g, ok := got.([]any)
		if !ok || len(g) != len(w) {
			return false
		}
		for i := range w {
			if !govcEqual(g[i], w[i]) {
				return false
			}
		}
		return true
	case map[string]any:
		g, ok := got.(map[string]any)
		if !ok || len(g) != len(w) {
			return false
		}
		for k, v := range w {
			if !govcEqual(g[k], v) {
				return false
			}
		}
		return true
	}
	return false
}

func TestGovcStandinColorJSON(t *testing.T) {
	evals, fails := 0, 0
	perClass := map[string]int{}
	var vals []any
	vals = append(vals, nil, true, false, 0, 1, -1, math.MaxInt64, math.MinInt64, "", "a\"b\\c\n\t \x00é", "<>&")
	for _, s := range []string{"18446744073709551615", "18446744073709551616", "-9223372036854775809", "340282366920938463463374607431768211455", "100000000000000000000000000000000000000000"} {
		b, _ := new(big.Int).SetString(s, 10)
		vals = append(vals, b)
	}
	step := 7
	if os.Getenv("VERIF_TIER") == "thorough" {
		step = 1
	}
	for e := -324; e <= 308; e += step {
		for _, m := range []float64{1, 1.5, 2.5, 9.999999999999999, 1.2345678901234567} {
			f := m * math.Pow(10, float64(e))
			vals = append(vals, f, -f)
		}
	}
	vals = append(vals, 1e-7, 2.5e-10, 1e-21, 1.5e-17, 1e21, 1e20, 123456789012345680000.0, 0.000001, 0.0000009, math.MaxFloat64, math.SmallestNonzeroFloat64, math.Inf(1), math.Inf(-1), math.NaN(), 0.1, -0.0)
	base := len(vals)
	for i := 0; i+2 < base; i += 3 {
		vals = append(vals, []any{vals[i], vals[i+1], vals[i+2]}, map[string]any{"a": vals[i], "b\"": []any{vals[i+1]}})
	}
	for _, opts := range []Options{{}, {Indent: 2}, {Tab: true, Indent: 1}} {
		for _, v := range vals {
			evals++
			var out bytes.Buffer
			if err := NewEncoder(opts).Marshal(v, &out); err != nil {
				fails++
				continue
			}
			dec := json.NewDecoder(bytes.NewReader(out.Bytes()))
			dec.UseNumber()
			var back any
			class := ""
			if err := dec.Decode(&back); err != nil {
				class = "invalid-json"
			} else if !govcEqual(back, v) {
				class = "different-value"
			}
			if class != "" {
				fails++
				perClass[class]++
				if perClass[class] <= 3 {
					fmt.Printf("STANDIN-FAIL colorjson-roundtrip class=%s input=%#v encoded as %q\n", class, v, out.String())
				}
			}
		}
	}
	fmt.Printf("STANDIN colorjson-roundtrip evaluations=%d failures=%d\n", evals, fails)
}
