package mathx

// Stand-ins for property C02 (float readers), injected with go test -overlay by /verif.  Floating
// point is outside the deductive engine's reach, so these are checks by execution against exact
// references: TestGovcStandinFloat16 is COMPLETE (all 65536 encodings); TestGovcStandinFloat80 is
// BOUNDED (a grid of exponents around every boundary x a set of significands x both signs).

import (
	"fmt"
	"math"
	"math/big"
	"os"
	"testing"
)

func TestGovcStandinFloat16(t *testing.T) {
	evals, fails := 0, 0
	for u := 0; u < 1<<16; u++ {
		evals++
		s, e, f := u>>15, (u>>10)&31, u&1023
		var want float64
		switch {
		case e == 31 && f != 0:
			want = math.NaN()
		case e == 31:
			want = math.Inf(1)
		case e == 0:
			want = math.Ldexp(float64(f), -24)
		default:
			want = math.Ldexp(float64(1024+f), e-25)
		}
		if s == 1 {
			want = -want
		}
		got := float64(Float16(u).Float32())
		ok := got == want && math.Signbit(got) == math.Signbit(want)
		if math.IsNaN(want) {
			ok = math.IsNaN(got)
		}
		if !ok {
			fails++
			if fails <= 3 {
				fmt.Printf("STANDIN-FAIL float16-value class=wrong-value input=Float16(%#04x).Float32()=%v want %v\n", u, got, want)
			}
		}
	}
	fmt.Printf("STANDIN float16-value evaluations=%d failures=%d\n", evals, fails)
}

func TestGovcStandinFloat80(t *testing.T) {
	evals, fails := 0, 0
	perClass := map[string]int{}
	// exponents: every boundary of the binary64 range seen from binary80, and the ends of binary80
	var exps []int
	add := func(lo, hi int) {
		for e := lo; e <= hi; e++ {
			if e >= 0 && e <= 0x7FFF {
				exps = append(exps, e)
			}
		}
	}
	add(0, 3)
	add(16383-1080, 16383-1070) // below the smallest binary64 subnormal
	add(16383-1026, 16383-1019) // normal/subnormal boundary of binary64
	add(16383-3, 16383+3)
	add(16383+1020, 16383+1027) // overflow boundary of binary64
	add(0x7FFC, 0x7FFF)
	if os.Getenv("VERIF_TIER") == "thorough" {
		for e := 16383 - 1100; e <= 16383+1100; e += 7 {
			add(e, e)
		}
		for e := 0; e <= 0x7FFF; e += 257 {
			add(e, e)
		}
	}
	mants := []uint64{0x8000000000000000, 0x8000000000000001, 0x8000000000000400, 0x80000000000007FF, 0x8000000000000800,
		0xC000000000000000, 0xAAAAAAAAAAAAAAAA, 0xFFFFFFFFFFFFF800, 0xFFFFFFFFFFFFFFFF}
	for _, e := range exps {
		for _, m := range mants {
			if e == 0 {
				m &^= 1 << 63 // binary80 zero / subnormal: integer bit clear
			}
			for sign := 0; sign < 2; sign++ {
				evals++
				f := Float80{se: uint16(sign<<15 | e), m: m}
				got := f.Float64()
				var want float64
				class := ""
				switch {
				case e == 0x7FFF && m<<1 == 0:
					want = math.Inf(1)
				case e == 0x7FFF:
					want = math.NaN()
				default:
					// exact value m * 2^(e-16383-63) (exponent -16382 for e == 0), rounded to nearest binary64
					ee := e
					if ee == 0 {
						ee = 1
					}
					x := new(big.Float).SetPrec(128).SetUint64(m)
					x.SetMantExp(x, ee-16383-63)
					want, _ = x.Float64()
				}
				if sign == 1 {
					want = -want
				}
				ok := false
				switch {
				case math.IsNaN(want):
					ok = math.IsNaN(got)
					class = "nan"
				case math.IsInf(want, 0) || want == 0:
					ok = got == want && math.Signbit(got) == math.Signbit(want)
					class = "outside-binary64-range"
					if math.IsInf(want, 0) && e != 0x7FFF && e-16383 <= 1023 && math.Abs(got) == math.MaxFloat64 && math.Signbit(got) == math.Signbit(want) {
						ok = true // the exact value is below 2^1024 and only rounds up to infinity: truncation is tolerated
					}
				default:
					// the conversion may truncate instead of rounding: one unit in the last place is tolerated
					ok = got == want || got == math.Nextafter(want, 0) || got == math.Nextafter(want, math.Inf(1)) || got == math.Nextafter(want, math.Inf(-1))
					class = "wrong-value"
					if math.Abs(want) < 0x1p-1022 {
						class = "binary64-subnormal-range"
					}
				}
				if !ok {
					fails++
					perClass[class]++
					if perClass[class] <= 3 {
						fmt.Printf("STANDIN-FAIL float80-value class=%s input=Float80{se:%#04x,m:%#016x}.Float64()=%v want %v\n", class, f.se, f.m, got, want)
					}
				}
			}
		}
	}
	fmt.Printf("STANDIN float80-value evaluations=%d failures=%d\n", evals, fails)
}
