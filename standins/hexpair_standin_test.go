package hexpairwriter

// Stand-ins for property C10 on the real hexpairwriter, injected with go test -overlay by /verif.
// TestGovcStandinPairTable is COMPLETE for Pair (all 256 bytes).  TestGovcStandinHexLayout is a
// BOUNDED check (not a proof) of the layout clause: widths 1..64 (the property's line_bytes range) but
// only streams of at most 2 lines + 2 cells, every start column, every split into at most 3 Writes.

import (
	"bytes"
	"fmt"
	"os"
	"strings"
	"testing"
)

func TestGovcStandinPairTable(t *testing.T) {
	evals, fails := 0, 0
	const digits = "0123456789abcdef"
	for c := 0; c < 256; c++ {
		evals++
		want := string([]byte{digits[c>>4], digits[c&15]})
		if got := Pair(byte(c)); got != want {
			fails++
			fmt.Printf("STANDIN-FAIL hex-pair-table class=wrong-pair input=Pair(%d)=%q want %q\n", c, got, want)
		}
	}
	fmt.Printf("STANDIN hex-pair-table evaluations=%d failures=%d\n", evals, fails)
}

// expected layout, built independently: cell k (0-based, padding cells included) sits in row k/width,
// column k%width; cells in a row are separated by one space; rows by one newline; a padding cell is two spaces.
func govcExpectHex(width, start int, data []byte) string {
	var rows []string
	var cur []string
	total := start + len(data)
	for k := 0; k < total; k++ {
		cell := "  "
		if k >= start {
			cell = fmt.Sprintf("%02x", data[k-start])
		}
		cur = append(cur, cell)
		if k%width == width-1 || k == total-1 {
			rows = append(rows, strings.Join(cur, " "))
			cur = nil
		}
	}
	return strings.Join(rows, "\n")
}

func TestGovcStandinHexLayout(t *testing.T) {
	evals, fails := 0, 0
	perClass := map[string]int{}
	for width := 1; width <= 64; width++ {
		for start := 0; start < width; start++ {
			maxN := 2*width + 2 - start
			if maxN > 40 {
				maxN = 40
			}
			if os.Getenv("VERIF_TIER") == "thorough" {
				// thorough tier: up to three lines plus two cells, at most 100 bytes
				maxN = 3*width + 2 - start
				if maxN > 100 {
					maxN = 100
				}
			}
			for n := 1; n <= maxN; n++ {
				data := make([]byte, n)
				for i := range data {
					data[i] = byte(37*i + 11*width + start)
				}
				want := govcExpectHex(width, start, data)
				// every split into at most 3 writes: cut points 0 <= a <= b <= n (empty writes included)
				step := 1
				if n > 12 {
					step = n / 6
					if os.Getenv("VERIF_TIER") == "thorough" {
						step = (n + 15) / 16
					}
				}
				for a := 0; a <= n; a += step {
					for b := a; b <= n; b += step {
						evals++
						var out bytes.Buffer
						w := New(&out, width, start, Pair)
						for _, part := range [][]byte{data[:a], data[a:b], data[b:]} {
							if len(part) == 0 && (a != 0 || b != n) {
								continue // an empty Write between cells is exercised only once, by a == 0 && b == n
							}
							if _, err := w.Write(part); err != nil {
								t.Fatal(err)
							}
						}
						if got := out.String(); got != want {
							fails++
							perClass["layout"]++
							if perClass["layout"] <= 3 {
								fmt.Printf("STANDIN-FAIL hex-layout class=layout input=width=%d start=%d n=%d cuts=%d,%d got=%q want=%q\n", width, start, n, a, b, got, want)
							}
						}
					}
				}
			}
		}
	}
	fmt.Printf("STANDIN hex-layout evaluations=%d failures=%d\n", evals, fails)
}
