package flowsdecoder

// Demo for seed-28 change (b): a TCP segment carried in a fragmented IPv4
// datagram must end up in the reassembled stream (and in the list of
// reassembled datagrams) whatever the fragment sizes and arrival order are.
//
// Place in format/inet/flowsdecoder/ and run with
//   go test -vet=off -count=1 -run 'TestFragEq' ./format/inet/flowsdecoder/

import (
	"bytes"
	"encoding/binary"
	"net"
	"testing"
)

func frageqChecksum(bs []byte) uint16 {
	var sum uint32
	for i := 0; i+1 < len(bs); i += 2 {
		sum += uint32(bs[i])<<8 | uint32(bs[i+1])
	}
	if len(bs)%2 == 1 {
		sum += uint32(bs[len(bs)-1]) << 8
	}
	for sum>>16 != 0 {
		sum = sum&0xffff + sum>>16
	}
	return ^uint16(sum)
}

const (
	frageqFIN = 0x01
	frageqSYN = 0x02
	frageqPSH = 0x08
	frageqACK = 0x10
)

// frageqTCP builds a TCP segment (20 byte header, no options) with a correct checksum
func frageqTCP(src, dst net.IP, sport, dport uint16, seq, ack uint32, flags byte, payload []byte) []byte {
	b := make([]byte, 20+len(payload))
	binary.BigEndian.PutUint16(b[0:], sport)
	binary.BigEndian.PutUint16(b[2:], dport)
	binary.BigEndian.PutUint32(b[4:], seq)
	binary.BigEndian.PutUint32(b[8:], ack)
	b[12] = 5 << 4
	b[13] = flags
	binary.BigEndian.PutUint16(b[14:], 65535)
	copy(b[20:], payload)

	pseudo := make([]byte, 0, 12+len(b))
	pseudo = append(pseudo, src.To4()...)
	pseudo = append(pseudo, dst.To4()...)
	pseudo = append(pseudo, 0, 6, byte(len(b)>>8), byte(len(b)))
	pseudo = append(pseudo, b...)
	binary.BigEndian.PutUint16(b[16:], frageqChecksum(pseudo))
	return b
}

// frageqIPv4 builds an IPv4 packet (or fragment) with protocol TCP.
// offset is the fragment offset in bytes (multiple of 8).
func frageqIPv4(src, dst net.IP, id uint16, moreFragments bool, offset int, payload []byte) []byte {
	b := make([]byte, 20+len(payload))
	b[0] = 0x45
	binary.BigEndian.PutUint16(b[2:], uint16(len(b)))
	binary.BigEndian.PutUint16(b[4:], id)
	ff := uint16(offset / 8)
	if moreFragments {
		ff |= 0x2000
	}
	binary.BigEndian.PutUint16(b[6:], ff)
	b[8] = 64
	b[9] = 6
	copy(b[12:], src.To4())
	copy(b[16:], dst.To4())
	binary.BigEndian.PutUint16(b[10:], frageqChecksum(b[:20]))
	copy(b[20:], payload)
	return b
}

// frageqFragments splits an IP payload at the given byte offsets (multiples of 8)
func frageqFragments(src, dst net.IP, id uint16, ipPayload []byte, cuts ...int) [][]byte {
	var frags [][]byte
	start := 0
	for _, c := range append(cuts, len(ipPayload)) {
		frags = append(frags, frageqIPv4(src, dst, id, c != len(ipPayload), start, ipPayload[start:c]))
		start = c
	}
	return frags
}

func frageqRun(t *testing.T, cuts []int, order []int) {
	t.Helper()

	cIP, sIP := net.IPv4(192, 168, 7, 10), net.IPv4(192, 168, 7, 20)
	const cPort, sPort = 51000, 7000
	cSeq, sSeq := uint32(100000), uint32(200000)
	id := uint16(1)
	plain := func(fromClient bool, flags byte, payload []byte) []byte {
		id++
		if fromClient {
			p := frageqIPv4(cIP, sIP, id, false, 0, frageqTCP(cIP, sIP, cPort, sPort, cSeq, sSeq, flags, payload))
			cSeq += uint32(len(payload))
			if flags&(frageqSYN|frageqFIN) != 0 {
				cSeq++
			}
			return p
		}
		p := frageqIPv4(sIP, cIP, id, false, 0, frageqTCP(sIP, cIP, sPort, cPort, sSeq, cSeq, flags, payload))
		sSeq += uint32(len(payload))
		if flags&(frageqSYN|frageqFIN) != 0 {
			sSeq++
		}
		return p
	}

	part1 := make([]byte, 120)
	for i := range part1 {
		part1[i] = byte('A' + i%26)
	}
	part2 := []byte("-and-the-unfragmented-tail-of-the-request")
	reply := []byte("server reply")

	var pkts [][]byte
	pkts = append(pkts, plain(true, frageqSYN, nil))
	pkts = append(pkts, plain(false, frageqSYN|frageqACK, nil))
	pkts = append(pkts, plain(true, frageqACK, nil))

	// first data segment: 20 byte TCP header + 116 bytes of data = 136 bytes
	// of IP payload, sent as IPv4 fragments
	bigSegment := frageqTCP(cIP, sIP, cPort, sPort, cSeq, sSeq, frageqACK|frageqPSH, part1)
	cSeq += uint32(len(part1))
	frags := frageqFragments(cIP, sIP, 0x7777, bigSegment, cuts...)
	for _, i := range order {
		pkts = append(pkts, frags[i])
	}
	expectedDatagram := frageqIPv4(cIP, sIP, 0x7777, false, 0, bigSegment)

	pkts = append(pkts, plain(true, frageqACK|frageqPSH, part2))
	pkts = append(pkts, plain(false, frageqACK|frageqPSH, reply))
	pkts = append(pkts, plain(true, frageqACK|frageqFIN, nil))
	pkts = append(pkts, plain(false, frageqACK|frageqFIN, nil))
	pkts = append(pkts, plain(true, frageqACK, nil))

	fd := New(DecoderOptions{CheckTCPOptions: false})
	for i, p := range pkts {
		if err := fd.IPv4Packet(p); err != nil {
			t.Fatalf("packet %d: IPv4Packet error: %v", i, err)
		}
	}
	fd.Flush()

	if len(fd.TCPConnections) != 1 {
		t.Fatalf("expected 1 TCP connection, got %d", len(fd.TCPConnections))
	}
	tc := fd.TCPConnections[0]
	if !tc.Client.Endpoint.IP.Equal(cIP) || tc.Client.Endpoint.Port != cPort ||
		!tc.Server.Endpoint.IP.Equal(sIP) || tc.Server.Endpoint.Port != sPort {
		t.Errorf("endpoints client %v:%d server %v:%d", tc.Client.Endpoint.IP, tc.Client.Endpoint.Port, tc.Server.Endpoint.IP, tc.Server.Endpoint.Port)
	}
	expectedClient := append(append([]byte{}, part1...), part2...)
	if !bytes.Equal(tc.Client.Buffer.Bytes(), expectedClient) {
		t.Errorf("client stream is %d bytes %q, expected %d bytes %q", tc.Client.Buffer.Len(), tc.Client.Buffer.Bytes(), len(expectedClient), expectedClient)
	}
	if tc.Client.SkippedBytes != 0 {
		t.Errorf("client skipped bytes %d, expected 0 (every fragment is in the capture)", tc.Client.SkippedBytes)
	}
	if !bytes.Equal(tc.Server.Buffer.Bytes(), reply) {
		t.Errorf("server stream %q, expected %q", tc.Server.Buffer.Bytes(), reply)
	}
	if tc.Server.SkippedBytes != 0 {
		t.Errorf("server skipped bytes %d, expected 0", tc.Server.SkippedBytes)
	}

	if len(fd.IPV4Reassembled) != 1 {
		t.Fatalf("expected 1 reassembled IPv4 datagram, got %d", len(fd.IPV4Reassembled))
	}
	if !bytes.Equal(fd.IPV4Reassembled[0].Datagram, expectedDatagram) {
		t.Errorf("reassembled datagram\n got %x\nwant %x", fd.IPV4Reassembled[0].Datagram, expectedDatagram)
	}
}

// two fragments, 120 + 16 bytes of IP payload, the short trailing fragment
// is captured before the leading one (local reordering)
func TestFragEqFragmentsShortTailFirst(t *testing.T) {
	frageqRun(t, []int{120}, []int{1, 0})
}

// two fragments in order, a minimal 16 byte leading fragment followed by the rest
func TestFragEqFragmentsTinyHeadInOrder(t *testing.T) {
	frageqRun(t, []int{16}, []int{0, 1})
}

// control: three fragments in order and fully reversed
func TestFragEqFragmentsThreeWay(t *testing.T) {
	frageqRun(t, []int{48, 96}, []int{0, 1, 2})
	frageqRun(t, []int{48, 96}, []int{2, 1, 0})
}

func TestFragEqTail20First(t *testing.T) {
	frageqRun(t, []int{120}, []int{1, 0})
}
func TestFragEqTail20InOrder(t *testing.T) {
	frageqRun(t, []int{120}, []int{0, 1})
}
func TestFragEqMiddleLast(t *testing.T) {
	frageqRun(t, []int{16, 136}, []int{0, 2, 1})
}
