package bitio_test

import (
	"bytes"
	"testing"

	"github.com/wader/fq/pkg/bitio"
)

func TestIOBitWriterLarge(t *testing.T) {
	var out bytes.Buffer
	w := bitio.NewIOBitWriter(&out)
	p := make([]byte, 40*1024)
	for i := range p {
		p[i] = byte(i)
	}
	n, err := w.WriteBits(p, int64(len(p))*8)
	if err != nil || n != int64(len(p))*8 {
		t.Fatalf("n=%d err=%v", n, err)
	}
	if err := w.Flush(); err != nil {
		t.Fatal(err)
	}
	if !bytes.Equal(out.Bytes(), p) {
		t.Fatalf("output differs: %d bytes", out.Len())
	}
}
