#!/bin/bash
# usage: seedcheck.sh <patch.diff> <property>...   -- apply a seeded change to /repo, run the checks, undo it
patch=$1; shift
cd /repo || exit 2
if [ -n "$(git status --porcelain)" ]; then echo "refusing: /repo has uncommitted changes (commit contract files first)"; exit 2; fi
if ! git apply --check "$patch" 2>/dev/null; then echo "patch does not apply: $patch"; exit 2; fi
git apply "$patch"
rc_all=0
for p in "$@"; do
  out=$(cd /verif && bin/govc check --property $p --tier quick --no-evidence 2>&1); rc=$?
  echo "--- $p rc=$rc"; echo "$out" | grep -E "^VIOLATION|^UNDECIDED|^KNOWN" | head -5; echo "$out" | tail -1
  [ $rc -eq 1 ] || rc_all=1
done
git -C /repo checkout -- . 
exit $rc_all
