#!/bin/bash
# usage: run_benign.sh  -- applies each behaviour-preserving patch to /repo, expects the check to stay quiet (exit 0, no VIOLATION)
cd /verif
bad=0
for f in selftest/benign/*.patch; do
  n=$(basename $f .patch); p=$(cat selftest/benign/$n.prop)
  out=$(selftest/seedcheck.sh /verif/$f $p 2>&1)
  if echo "$out" | grep -q "rc=0" && ! echo "$out" | grep -q "^VIOLATION"; then if echo "$out" | grep -q "^UNDECIDED"; then echo "benign $n: quiet (but UNDECIDED: coverage lost)"; else echo "benign $n: quiet"; fi; else echo "benign $n: ALARM"; echo "$out" | tail -3; bad=1; fi
done
exit $bad
