#!/bin/bash
# usage: mkmut.sh <name> <property> <file> <sed-expr>   -- creates mutants/<name>.patch (+ .prop)
set -e
name=$1; prop=$2; file=$3; expr=$4
wt=$(mktemp -d /tmp/govc-mk-XXXX)
git -C /repo worktree add -q --detach $wt HEAD
( cd $wt && sed -i "$expr" $file && git diff > /verif/selftest/mutants/$name.patch )
git -C /repo worktree remove --force $wt
if [ ! -s /verif/selftest/mutants/$name.patch ]; then echo "EMPTY PATCH $name"; rm -f /verif/selftest/mutants/$name.patch; exit 1; fi
echo $prop > /verif/selftest/mutants/$name.prop
echo "created $name"
