#!/bin/bash
# usage: run.sh [name...]   -- applies each mutant to a scratch worktree and expects the property's check to exit 1
cd /verif
pass=0; fail=0
names="$@"
if [ -z "$names" ]; then names=$(ls selftest/mutants/*.patch | xargs -n1 basename | sed 's/.patch$//'); fi
for n in $names; do
  prop=$(cat selftest/mutants/$n.prop)
  wt=$(mktemp -d /tmp/govc-mut-XXXX)
  git -C /repo worktree add -q --detach $wt HEAD
  # contract files from the working tree (may be uncommitted)
  (cd /repo && find . -name verif_contracts.go | while read f; do cp $f $wt/$f; done)
  if ! git -C $wt apply /verif/selftest/mutants/$n.patch; then echo "MUTANT $n: patch does not apply"; fail=$((fail+1)); git -C /repo worktree remove --force $wt; continue; fi
  ok=1
  for p in $prop; do
    out=$(VERIF_DIR=/verif VERIF_SELFTEST=1 bin/govc check --repo $wt --property $p --tier quick --no-evidence 2>&1); rc=$?
    if [ $rc -ne 1 ] || ! echo "$out" | grep -q '^VIOLATION'; then ok=0; echo "MUTANT $n ($p): NOT DETECTED rc=$rc"; echo "$out" | tail -3; fi
    echo "$out" | grep '^VIOLATION' | head -2 | sed "s/^/   $n: /"
  done
  if [ $ok = 1 ]; then pass=$((pass+1)); else fail=$((fail+1)); fi
  git -C /repo worktree remove --force $wt
done
echo "selftest: $pass detected, $fail missed"
[ $fail = 0 ]
