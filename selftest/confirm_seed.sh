#!/bin/bash
# usage: confirm_seed.sh <seed-out-dir> <id> <property> <demo-pkg-dir> <test-run-regex>
# Confirms a seeded change in a scratch worktree: builds, unedited suite passes, demo fails with / passes without.
# On success copies patch.diff, demo and meta.json to /verif/seeded/<id>/.
src=$1; id=$2; prop=$3; pkg=$4; run=$5
export GOFLAGS=-mod=mod GOPROXY=off GOSUMDB=off GOTOOLCHAIN=local
wt=$(mktemp -d /tmp/seedconf-XXXX)
git -C /repo worktree add -q --detach $wt HEAD || exit 2
cd $wt
log=/tmp/seedconf-$id.log; : > $log
ok=1
git apply $src/patch.diff >> $log 2>&1 || { echo "APPLY FAILED" >> $log; ok=0; }
if [ $ok = 1 ]; then go build ./... >> $log 2>&1 || { echo "BUILD FAILED" >> $log; ok=0; }; fi
suite="not run"
if [ $ok = 1 ]; then
  if go test -vet=off -count=1 ./... > /tmp/seedconf-$id.suite 2>&1; then suite="pass"; else suite="FAIL"; ok=0; grep -v "^ok\|no test files" /tmp/seedconf-$id.suite | head -20 >> $log; fi
fi
with="not run"; without="not run"
if [ $ok = 1 ] && [ -f $src/demo.sh ]; then
  # shell demo: lives at <worktree>/out/x/demo.sh and builds fq from the worktree root; exit 1 = violated
  mkdir -p out/x; sed "s|^ROOT=/tmp/seed-[0-9]*|ROOT=$wt|" $src/demo.sh > out/x/demo.sh
  sh out/x/demo.sh > /tmp/seedconf-$id.with 2>&1; rc=$?
  if [ $rc = 1 ]; then with="fail"; else with="rc=$rc(!)"; ok=0; fi
  git apply -R $src/patch.diff
  sh out/x/demo.sh > /tmp/seedconf-$id.without 2>&1; rc=$?
  if [ $rc = 0 ]; then without="pass"; else without="rc=$rc(!)"; ok=0; tail -20 /tmp/seedconf-$id.without >> $log; fi
elif [ $ok = 1 ]; then
  cp $src/demo_test.go $pkg/zz_seed_demo_test.go
  if go test -vet=off -count=1 -run "$run" ./$pkg > /tmp/seedconf-$id.with 2>&1; then with="pass(!)"; ok=0; else with="fail"; fi
  git apply -R $src/patch.diff
  if go test -vet=off -count=1 -run "$run" ./$pkg > /tmp/seedconf-$id.without 2>&1; then without="pass"; else without="FAIL(!)"; ok=0; tail -20 /tmp/seedconf-$id.without >> $log; fi
fi
echo "seed $id: build+suite=$suite demo-with-change=$with demo-without=$without ok=$ok" | tee -a $log
if [ $ok = 1 ]; then
  mkdir -p /verif/seeded/$id
  cp $src/patch.diff /verif/seeded/$id/patch.diff
  [ -f $src/demo_test.go ] && cp $src/demo_test.go /verif/seeded/$id/demo_test.go
  [ -f $src/demo.sh ] && cp $src/demo.sh /verif/seeded/$id/demo.sh
  [ -f $src/notes.txt ] && cp $src/notes.txt /verif/seeded/$id/notes.txt
  python3 - <<PY
import json
json.dump({"id":"$id","property":"$prop","demo_package_dir":"$pkg","demo_run":"$run",
 "confirmed":{"builds":True,"unedited_suite":"pass (go test -vet=off -count=1 ./... in a scratch worktree with only this patch)","demo_with_change":"fails","demo_without_change":"passes"},
 "produced_by":"independent sub-agent given only the property text and a scratch worktree",
 "needs_to_manifest":open("$src/notes.txt").read()[:1500] if __import__('os').path.exists("$src/notes.txt") else ""},
 open("/verif/seeded/$id/meta.json","w"),indent=1)
PY
fi
cd /; git -C /repo worktree remove --force $wt
