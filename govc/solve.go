package govc

// SMT-LIB emission and the solver race.

import (
	"bytes"
	"context"
	"fmt"
	"os"
	"os/exec"
	"path/filepath"
	"regexp"
	"sort"
	"strings"
	"sync"
	"time"
)

type SolverCfg struct {
	TmpDir    string
	TimeoutS  int
	Workers   int
	Solvers   []string // order of the race
	Confirm   bool     // thorough: every unsat confirmed by a second solver
	NoBatch   bool
	Deadline  time.Time // wall-clock budget: obligations not started before it are left unknown
	KeepFiles bool
}

const prelude = `(set-option :produce-models true)
(set-logic ALL)
(declare-datatypes ((Slice 0)) (((mk-slice (s-arr Int) (s-off Int) (s-len Int) (s-cap Int)))))
(declare-sort Str 0)
`

// collect symbols
type symtab struct {
	ifaceLits map[int64]bool // interface ids used in implements(_, id)
	dynLits map[int64]bool // type ids compared with a dyntype(...) term
	vars    map[string]*Sort
	ufs     map[string]bool
	structs map[string]*Sort
	order   []string
}

func (st *symtab) sortSeen(s *Sort) {
	if s == nil {
		return
	}
	switch s.K {
	case KNamed:
		if len(s.Fields) > 0 || strings.HasPrefix(s.Name, "S_") { // struct sorts, the empty struct included
			if _, ok := st.structs[s.Name]; !ok {
				for _, f := range s.Fields {
					st.sortSeen(f.S)
				}
				st.structs[s.Name] = s
				st.order = append(st.order, s.Name)
			}
		}
	case KArray:
		st.sortSeen(s.Idx)
		st.sortSeen(s.Elem)
	}
}

func (st *symtab) walk(e *Engine, t *Term, seen map[*Term]bool, bound map[string]bool) {
	if seen[t] {
		return
	}
	if len(bound) == 0 {
		seen[t] = true
	}
	st.sortSeen(t.S)
	switch t.Op {
	case "var":
		if !bound[t.Name] {
			st.vars[t.Name] = t.S
		}
		return
	case "forall", "exists":
		nb := map[string]bool{}
		for k := range bound {
			nb[k] = true
		}
		for _, v := range t.Args[:len(t.Args)-1] {
			nb[v.Name] = true
			st.sortSeen(v.S)
		}
		st.walk(e, t.Args[len(t.Args)-1], map[*Term]bool{}, nb)
		for _, grp := range t.Pats {
			for _, pt := range grp {
				st.walk(e, pt, map[*Term]bool{}, nb)
			}
		}
		return
	}
	if _, ok := e.ufuncs[t.Op]; ok {
		st.ufs[t.Op] = true
	}
	if t.Op == "=" && len(t.Args) == 2 {
		for k := 0; k < 2; k++ {
			if t.Args[k].Op == "dyntype" && t.Args[1-k].IsIntLit() {
				if st.dynLits == nil {
					st.dynLits = map[int64]bool{}
				}
				st.dynLits[t.Args[1-k].Val.Int64()] = true
			}
		}
	}
	if t.Op == "implements" && len(t.Args) == 2 && t.Args[1].IsIntLit() {
		if st.ifaceLits == nil {
			st.ifaceLits = map[int64]bool{}
		}
		st.ifaceLits[t.Args[1].Val.Int64()] = true
	}
	if t.Op == "at" {
		st.ufs["at"] = true
	}
	for _, a := range t.Args {
		st.walk(e, a, seen, bound)
	}
}

func (e *Engine) header(st *symtab) string {
	var sb strings.Builder
	sb.WriteString(prelude)
	for _, n := range st.order {
		s := st.structs[n]
		fmt.Fprintf(&sb, "(declare-datatypes ((%s 0)) (((mk-%s", s.Name, s.Name)
		for _, f := range s.Fields {
			fmt.Fprintf(&sb, " (%s-%s %s)", s.Name, f.Name, f.S)
		}
		sb.WriteString("))))\n")
	}
	if st.ufs["at"] {
		sb.WriteString("(declare-fun at (Int Int) Int)\n(assert (forall ((o Int) (k Int)) (! (= (at o k) (+ o k)) :pattern ((at o k)))))\n")
	}
	for _, n := range sortedKeys(st.ufs) {
		if n == "at" {
			continue
		}
		u := e.ufuncs[n]
		var as []string
		for _, a := range u.Args {
			as = append(as, a.String())
		}
		fmt.Fprintf(&sb, "(declare-fun %s (%s) %s)\n", smtIdent(n), strings.Join(as, " "), u.Res)
	}
	for _, n := range sortedKeys(st.vars) {
		fmt.Fprintf(&sb, "(declare-const %s %s)\n", smtIdent(n), st.vars[n])
	}
	// builtin axioms for uninterpreted helpers in use
	if st.ufs["errIs"] {
		sb.WriteString("(assert (forall ((e Int)) (! (errIs e e) :pattern ((errIs e e)))))\n")
		sb.WriteString("(assert (forall ((t Int)) (! (=> (not (= t 0)) (not (errIs 0 t))) :pattern ((errIs 0 t)))))\n")
	}
	if st.ufs["pow2"] {
		sb.WriteString("(assert (= (pow2 0) 1))\n(assert (forall ((n Int)) (! (=> (> n 0) (= (pow2 n) (* 2 (pow2 (- n 1))))) :pattern ((pow2 n)))))\n")
	}
	if st.ufs["strlen"] {
		sb.WriteString("(assert (forall ((s Str)) (! (and (>= (strlen s) 0) (<= (strlen s) 4611686018427387904)) :pattern ((strlen s)))))\n")
	}
	if st.ufs["RLen"] {
		sb.WriteString("(assert (forall ((r Int)) (! (>= (RLen r) 0) :pattern ((RLen r)))))\n")
	}
	if st.ufs["FLen"] {
		sb.WriteString("(assert (forall ((r Int)) (! (>= (FLen r) 0) :pattern ((FLen r)))))\n")
	}
	// embedded struct objects: emb$T$f(x) is the object stored in field f of x: non-nil, injective,
	// as old as its container
	embK := 0
	for _, n := range sortedKeys(st.ufs) {
		if strings.HasPrefix(n, "emb$") {
			id := smtIdent(n)
			inv := smtIdent(n + "$inv")
			fmt.Fprintf(&sb, "(declare-fun %s (Int) Int)\n", inv)
			fmt.Fprintf(&sb, "(assert (forall ((x Int)) (! (and (= (%s (%s x)) x) (=> (> x 0) (> (%s x) 0))) :pattern ((%s x)))))\n", inv, id, id, id)
			if _, ok := st.vars["top0"]; ok {
				fmt.Fprintf(&sb, "(assert (forall ((x Int)) (! (= (> (%s x) top0) (> x top0)) :pattern ((%s x)))))\n", id, id)
			}
			// embedded structs reached through different fields are different objects, and none of them is
			// an object allocated on its own (embtag is 0 for those)
			if st.ufs["embtag"] {
				embK++
				fmt.Fprintf(&sb, "(assert (forall ((x Int)) (! (= (embtag (%s x)) %d) :pattern ((%s x)))))\n", id, embK, id)
			}
		}
	}
	if st.ufs["implements"] {
		for _, f := range implementsFacts(st.dynLits, st.ifaceLits) {
			sb.WriteString(f + "\n")
		}
	}
	if st.ufs["implErr"] {
		for _, id := range nonErrorTypeIDs() {
			if st.dynLits[int64(id)] {
				fmt.Fprintf(&sb, "(assert (not (implErr %d)))\n", id)
			}
		}
	}
	// distinct string literals are distinct strings
	{
		var lits []string
		for _, n := range sortedKeys(st.ufs) {
			if strings.HasPrefix(n, "str$") {
				lits = append(lits, smtIdent(n))
			}
		}
		if len(lits) > 1 {
			fmt.Fprintf(&sb, "(assert (distinct %s))\n", strings.Join(lits, " "))
		}
		if st.ufs["strlen"] {
			for _, n := range sortedKeys(st.ufs) {
				if l, ok := strLitLen[n]; ok {
					fmt.Fprintf(&sb, "(assert (= (strlen %s) %d))\n", smtIdent(n), l)
				}
			}
			if st.ufs["str$empty"] {
				sb.WriteString("(assert (forall ((s Str)) (! (=> (= (strlen s) 0) (= s str$empty)) :pattern ((strlen s)))))\n")
			}
		}
	}
	// sentinel globals: non-nil, pairwise distinct
	var sent []string
	for _, n := range sortedKeys(st.ufs) {
		if strings.HasPrefix(n, "gv$") && e.ufuncs[n].Res.K == KInt && len(e.ufuncs[n].Args) == 0 {
			sent = append(sent, smtIdent(n))
		}
	}
	for _, s := range sent {
		fmt.Fprintf(&sb, "(assert (> %s 0))\n", s)
	}
	if len(sent) > 1 {
		fmt.Fprintf(&sb, "(assert (distinct %s))\n", strings.Join(sent, " "))
		if st.ufs["errIs"] {
			// sentinel errors are created by errors.New: they do not wrap one another
			for _, a := range sent {
				for _, b := range sent {
					if a != b {
						fmt.Fprintf(&sb, "(assert (not (errIs %s %s)))\n", a, b)
					}
				}
			}
		}
	}
	return sb.String()
}

// relevantAxioms: user axioms sharing an uninterpreted symbol with the given terms.
func (e *Engine) relevantAxioms(vc *VC, terms []*Term) []*Term {
	if len(vc.Axioms) == 0 {
		return nil
	}
	used := &symtab{vars: map[string]*Sort{}, ufs: map[string]bool{}, structs: map[string]*Sort{}}
	seen := map[*Term]bool{}
	for _, t := range terms {
		used.walk(e, t, seen, nil)
	}
	var out []*Term
	for _, ax := range vc.Axioms {
		st := &symtab{vars: map[string]*Sort{}, ufs: map[string]bool{}, structs: map[string]*Sort{}}
		st.walk(e, ax, map[*Term]bool{}, nil)
		// relevant iff every user-declared uninterpreted symbol of the axiom occurs in the query
		rel := true
		for u := range st.ufs {
			if sf, ok := e.SpecFuncs[u]; ok && sf.Body == nil && !used.ufs[u] {
				rel = false
			}
		}
		if rel {
			out = append(out, ax)
		}
	}
	return out
}

func (e *Engine) script(vc *VC, o *Obligation, extra []*Term, getValues []*Term) string {
	var terms []*Term
	terms = append(terms, vc.Assumes[:o.NAssume]...)
	terms = append(terms, extra...)
	goal := Not(o.Goal)
	if o.Kind == "pre-sat" {
		goal = True
		terms = vc.Assumes[:vc.PreN]
		terms = append(append([]*Term{}, terms...), extra...)
	}
	if vc.COI && o.Kind != "pre-sat" && o.Kind != "vacuity" {
		terms = e.coneOfInfluence(vc, terms, goal)
	}
	terms = append(e.relevantAxioms(vc, append(append([]*Term{}, terms...), goal)), terms...)
	st := &symtab{vars: map[string]*Sort{}, ufs: map[string]bool{}, structs: map[string]*Sort{}}
	seen := map[*Term]bool{}
	for _, t := range terms {
		st.walk(e, t, seen, nil)
	}
	st.walk(e, goal, seen, nil)
	for _, g := range getValues {
		st.walk(e, g, seen, nil)
	}
	var sb strings.Builder
	hdr := e.header(st)
	if vc.Approx {
		// quantifier-free candidate query: also drop the quantified built-in axioms of the header
		var keep []string
		for _, l := range strings.Split(hdr, "\n") {
			if !strings.HasPrefix(l, "(assert (forall") {
				keep = append(keep, l)
			}
		}
		hdr = strings.Join(keep, "\n")
	}
	sb.WriteString(hdr)
	for _, t := range terms {
		sb.WriteString("(assert ")
		t.write(&sb, nil)
		sb.WriteString(")\n")
	}
	sb.WriteString("(assert ")
	goal.write(&sb, nil)
	sb.WriteString(")\n(check-sat)\n")
	if len(getValues) > 0 {
		sb.WriteString("(get-value (")
		for _, g := range getValues {
			g.write(&sb, nil)
			sb.WriteString(" ")
		}
		sb.WriteString("))\n")
	}
	return sb.String()
}

// batchScript: all (unfolded, non-vacuity) obligations of one VC in one incremental script.
// Assumptions are asserted in recording order, so obligation k sees exactly Assumes[:NAssume_k].
func (e *Engine) batchScript(vc *VC, obls []*Obligation, timeoutMs int) string {
	st := &symtab{vars: map[string]*Sort{}, ufs: map[string]bool{}, structs: map[string]*Sort{}}
	seen := map[*Term]bool{}
	maxN := 0
	for _, o := range obls {
		if o.NAssume > maxN {
			maxN = o.NAssume
		}
		st.walk(e, o.Goal, seen, nil)
	}
	for _, t := range vc.Assumes[:maxN] {
		st.walk(e, t, seen, nil)
	}
	var allT []*Term
	allT = append(allT, vc.Assumes[:maxN]...)
	for _, o := range obls {
		allT = append(allT, o.Goal)
	}
	axs := e.relevantAxioms(vc, allT)
	for _, t := range axs {
		st.walk(e, t, seen, nil)
	}
	var sb strings.Builder
	sb.WriteString(e.header(st))
	fmt.Fprintf(&sb, "(set-option :timeout %d)\n", timeoutMs)
	for _, t := range axs {
		sb.WriteString("(assert ")
		t.write(&sb, nil)
		sb.WriteString(")\n")
	}
	next := 0
	for _, o := range obls {
		for ; next < o.NAssume; next++ {
			sb.WriteString("(assert ")
			vc.Assumes[next].write(&sb, nil)
			sb.WriteString(")\n")
		}
		sb.WriteString("(push 1)\n(assert ")
		Not(o.Goal).write(&sb, nil)
		sb.WriteString(")\n(check-sat)\n(pop 1)\n")
	}
	return sb.String()
}

type solveJob struct {
	vc  *VC
	o   *Obligation
	gv  []*Term
}

var firstLine = regexp.MustCompile(`(?m)^(sat|unsat|unknown|timeout)\s*$`)

func runSolver(solver, file string, timeoutS int) (string, string, float64) {
	return runSolverCtx(context.Background(), solver, file, timeoutS)
}

func runSolverCtx(parent context.Context, solver, file string, timeoutS int) (string, string, float64) {
	var cmd *exec.Cmd
	ctx, cancel := context.WithTimeout(parent, time.Duration(timeoutS+2)*time.Second)
	defer cancel()
	switch solver {
	case "z3-new-inc":
		// same query through z3's incremental core (what the batch phase uses): a (push) before the goal
		inc := file + ".inc.smt2"
		if b, err := os.ReadFile(file); err == nil {
			txt := string(b)
			if k := strings.LastIndex(txt, "(assert "); k >= 0 {
				txt = txt[:k] + "(push 1)\n" + txt[k:]
			}
			os.WriteFile(inc, []byte(txt), 0o644)
			defer os.Remove(inc)
		}
		cmd = exec.CommandContext(ctx, "z3-new", fmt.Sprintf("-T:%d", timeoutS), inc)
	case "z3-new":
		cmd = exec.CommandContext(ctx, "z3-new", fmt.Sprintf("-T:%d", timeoutS), file)
	case "z3":
		cmd = exec.CommandContext(ctx, "z3", fmt.Sprintf("-T:%d", timeoutS), file)
	case "cvc5":
		cmd = exec.CommandContext(ctx, "cvc5", "--produce-models", fmt.Sprintf("--tlimit=%d", timeoutS*1000), file)
	default:
		return "error", "unknown solver " + solver, 0
	}
	var out bytes.Buffer
	cmd.Stdout = &out
	cmd.Stderr = &out
	t0 := time.Now()
	_ = cmd.Run()
	dt := time.Since(t0).Seconds()
	s := out.String()
	m := firstLine.FindString(s)
	m = strings.TrimSpace(m)
	if m == "" {
		if ctx.Err() != nil || strings.Contains(s, "timeout") || strings.Contains(s, "interrupted") {
			m = "timeout"
		} else {
			m = "error"
		}
	}
	return m, s, dt
}

// Solve discharges all obligations of the given VCs in parallel.
func (e *Engine) Solve(jobs []solveJob, cfg SolverCfg) {
	if cfg.Workers <= 0 {
		cfg.Workers = 16
	}
	if len(cfg.Solvers) == 0 {
		cfg.Solvers = []string{"z3-new-inc", "z3-new", "cvc5", "z3"}
	}
	os.MkdirAll(cfg.TmpDir, 0o755)
	ch := make(chan solveJob)
	var wg sync.WaitGroup
	var seq int
	var mu sync.Mutex
	for w := 0; w < cfg.Workers; w++ {
		wg.Add(1)
		go func() {
			defer wg.Done()
			for j := range ch {
				o := j.o
				if !cfg.Deadline.IsZero() && time.Now().After(cfg.Deadline) {
					o.Result, o.Solver, o.Output = "unknown", "none", "wall-clock budget of the check exhausted before this obligation was tried"
					continue
				}
				mu.Lock()
				seq++
				id := seq
				mu.Unlock()
				text := e.script(j.vc, o, nil, j.gv)
				file := filepath.Join(cfg.TmpDir, fmt.Sprintf("ob%06d.smt2", id))
				os.WriteFile(file, []byte(text), 0o644)
				want := "unsat"
				if o.Kind == "pre-sat" || o.Kind == "vacuity" {
					want = "sat"
				}
				var total float64
				var results []string
				hasQ := strings.Contains(text, "(forall ")
				trust := func(sv, r string) string {
					if r == "sat" && sv == "z3" && want == "unsat" && hasQ {
						// z3 4.8.12 has answered sat on quantified VCs that are unsat (seen once: an unused
						// axiom flipped unsat to "sat" after z3 5.1 timed out); its sat is not trusted there
						return "unknown"
					}
					return r
				}
				// quick attempt with the first solver, then all solvers concurrently (first definite answer wins)
				fullT := cfg.TimeoutS
				if o.Quick && fullT > 3 {
					fullT = 3
				}
				if want == "sat" && fullT > 5 {
					fullT = 5 // vacuity probes are guards, not claims: an inconclusive probe is tolerated
				}
				quickT := 2
				if cfg.TimeoutS < quickT {
					quickT = cfg.TimeoutS
				}
				first := cfg.Solvers[0]
				r, out, dt := runSolver(first, file, quickT)
				total += dt
				r = trust(first, r)
				results = append(results, first+":"+r)
				o.Result, o.Solver, o.Output = r, first, out
				if r != "sat" && r != "unsat" {
					type ans struct {
						s, r, out string
						dt        float64
					}
					ctx, cancel := context.WithCancel(context.Background())
					ch := make(chan ans, len(cfg.Solvers))
					for _, sv := range cfg.Solvers {
						go func(sv string) {
							r, out, dt := runSolverCtx(ctx, sv, file, fullT)
							ch <- ans{sv, trust(sv, r), out, dt}
						}(sv)
					}
					for range cfg.Solvers {
						a := <-ch
						results = append(results, a.s+":"+a.r)
						if a.dt > total {
							total = a.dt
						}
						if a.r == "sat" || a.r == "unsat" {
							o.Result, o.Solver, o.Output = a.r, a.s, a.out
							break
						}
						o.Result, o.Solver, o.Output = a.r, a.s, a.out
					}
					cancel()
				}
				if o.Result == want && cfg.Confirm && want == "unsat" {
					// second opinion
					for _, s2 := range cfg.Solvers {
						if s2 == o.Solver {
							continue
						}
						r2, _, dt2 := runSolver(s2, file, cfg.TimeoutS)
						total += dt2
						if r2 == "unsat" {
							o.Solver = o.Solver + "+" + s2
							break
						}
						if trust(s2, r2) == "sat" {
							o.Result = "disagree"
							o.Output += "\nsolver disagreement: " + s2 + " says sat"
							break
						}
					}
				}
				if o.Result != "sat" && o.Result != "unsat" && o.Result != "disagree" {
					o.Output = strings.Join(results, " ") + "\n" + o.Output
					o.Result = "unknown"
				}
				o.Seconds = total
				if !cfg.KeepFiles && o.Result == want {
					if !cfg.KeepFiles {
						os.Remove(file)
					}
				} else {
					o.Detail += " [smt: " + file + "]"
				}
			}
		}()
	}
	// phase 1: one incremental z3 process per VC for its ordinary obligations (cuts process count ~20x);
	// anything not answered "unsat" there goes through the standalone race below.
	batched := map[*Obligation]bool{}
	if !cfg.Confirm && !cfg.NoBatch {
		type group struct {
			vc   *VC
			obls []*Obligation
		}
		var groups []*group
		idx := map[*VC]*group{}
		for _, j := range jobs {
			if j.o.Folded || j.o.Kind == "pre-sat" || j.o.Kind == "vacuity" || j.o.Quick || j.vc.COI {
				continue
			}
			g := idx[j.vc]
			if g == nil {
				g = &group{vc: j.vc}
				idx[j.vc] = g
				groups = append(groups, g)
			}
			g.obls = append(g.obls, j.o)
		}
		gch := make(chan *group)
		var gwg sync.WaitGroup
		var gseq int
		for w := 0; w < cfg.Workers; w++ {
			gwg.Add(1)
			go func() {
				defer gwg.Done()
				for g := range gch {
					if len(g.obls) < 4 {
						continue
					}
					mu.Lock()
					gseq++
					id := gseq
					mu.Unlock()
					text := e.batchScript(g.vc, g.obls, 8000)
					file := filepath.Join(cfg.TmpDir, fmt.Sprintf("batch%05d.smt2", id))
					os.WriteFile(file, []byte(text), 0o644)
					ctx, cancel := context.WithTimeout(context.Background(), time.Duration(40+len(g.obls)/2)*time.Second)
					cmd := exec.CommandContext(ctx, "z3-new", file)
					var out bytes.Buffer
					cmd.Stdout = &out
					t0 := time.Now()
					_ = cmd.Run()
					cancel()
					dt := time.Since(t0).Seconds()
					// one verdict line per obligation, in order; anything else in the output (a solver
					// error shifts or drops lines) invalidates the whole batch: its obligations are then
					// decided one by one
					var lines []string
					clean := !strings.Contains(out.String(), "(error")
					for _, ln := range strings.Split(out.String(), "\n") {
						ln = strings.TrimSpace(ln)
						switch ln {
						case "sat", "unsat", "unknown", "timeout":
							lines = append(lines, ln)
						case "":
						default:
							clean = false
						}
					}
					if !clean || len(lines) > len(g.obls) {
						lines = nil
					}
					for i, o := range g.obls {
						if i < len(lines) && lines[i] == "unsat" {
							o.Result, o.Solver, o.Seconds = "unsat", "z3-new(batch)", dt/float64(len(g.obls))
							mu.Lock()
							batched[o] = true
							mu.Unlock()
						}
					}
					if !cfg.KeepFiles {
						os.Remove(file)
					}
				}
			}()
		}
		for _, g := range groups {
			// a large VC is cut into chunks so that its obligations are solved in parallel
			const chunk = 40
			if len(g.obls) <= chunk+chunk/2 {
				gch <- g
				continue
			}
			for i := 0; i < len(g.obls); i += chunk {
				j := i + chunk
				if j > len(g.obls) {
					j = len(g.obls)
				}
				gch <- &group{vc: g.vc, obls: g.obls[i:j]}
			}
		}
		close(gch)
		gwg.Wait()
	}
	for _, j := range jobs {
		if j.o.Folded || batched[j.o] {
			continue
		}
		ch <- j
	}
	close(ch)
	wg.Wait()
}

// parse (get-value ...) output: ((term value) ...) -> map keyed by the printed term
func parseGetValueOrdered(out string) []string {
	var vals []string
	i := strings.Index(out, "((")
	if i < 0 {
		return nil
	}
	s := out[i+1:]
	depth := 0
	start := -1
	for k := 0; k < len(s); k++ {
		switch s[k] {
		case '|':
			// quoted symbol: skip to the closing bar
			j := strings.IndexByte(s[k+1:], '|')
			if j >= 0 {
				k += j + 1
			}
		case '(':
			if depth == 0 {
				start = k
			}
			depth++
		case ')':
			depth--
			if depth == 0 && start >= 0 {
				_, v := splitSexpr(s[start+1 : k])
				vals = append(vals, strings.Join(strings.Fields(v), " "))
				start = -1
			}
			if depth < 0 {
				return vals
			}
		}
	}
	return vals
}

func parseGetValue(out string) map[string]string {
	m := map[string]string{}
	i := strings.Index(out, "((")
	if i < 0 {
		return m
	}
	s := out[i+1:]
	// iterate over top-level pairs
	depth := 0
	start := -1
	for k := 0; k < len(s); k++ {
		switch s[k] {
		case '(':
			if depth == 0 {
				start = k
			}
			depth++
		case ')':
			depth--
			if depth == 0 && start >= 0 {
				pair := s[start+1 : k]
				// split pair into term and value: term is first s-expr
				t, v := splitSexpr(pair)
				m[strings.TrimSpace(t)] = strings.TrimSpace(v)
				start = -1
			}
			if depth < 0 {
				return m
			}
		}
	}
	return m
}

func splitSexpr(s string) (string, string) {
	s = strings.TrimSpace(s)
	if s == "" {
		return "", ""
	}
	if s[0] != '(' {
		if s[0] == '|' {
			j := strings.Index(s[1:], "|")
			return s[:j+2], s[j+2:]
		}
		j := strings.IndexAny(s, " \t\n")
		if j < 0 {
			return s, ""
		}
		return s[:j], s[j:]
	}
	depth := 0
	for k := 0; k < len(s); k++ {
		if s[k] == '(' {
			depth++
		} else if s[k] == ')' {
			depth--
			if depth == 0 {
				return s[:k+1], s[k+1:]
			}
		}
	}
	return s, ""
}

func sortObls(os []*Obligation) {
	sort.SliceStable(os, func(i, j int) bool { return os[i].Name < os[j].Name })
}

// coneOfInfluence keeps the hypotheses connected to the goal through shared free symbols (variables
// and uninterpreted functions), transitively.  Reachability names, top0 and the function's
// reference-typed parameters are hubs: sharing only a hub does not connect a hypothesis (its
// definition is still pulled in once the name is in the cone).  Dropping hypotheses is sound for
// "unsat" answers; a "sat" answer on the reduced query is only a candidate and goes through replay
// like any other.
func (e *Engine) coneOfInfluence(vc *VC, terms []*Term, goal *Term) []*Term {
	hubName := map[string]bool{"top0": true}
	for _, in := range vc.Inputs {
		if in.T != nil && in.T.Op == "var" && in.Ty != nil && isRefType(in.Ty) {
			hubName[in.T.Name] = true
		}
	}
	isHub := func(s string) bool { return hubName[s] || strings.HasPrefix(s, "reach!") }
	symsOf := func(t *Term) map[string]bool {
		st := &symtab{vars: map[string]*Sort{}, ufs: map[string]bool{}, structs: map[string]*Sort{}}
		st.walk(e, t, map[*Term]bool{}, nil)
		m := map[string]bool{}
		for v := range st.vars {
			m[v] = true
		}
		for u := range st.ufs {
			if u != "at" && u != "strlen" && u != "dyntype" {
				m["uf:"+u] = true
			}
		}
		return m
	}
	tsyms := make([]map[string]bool, len(terms))
	defOf := make([]string, len(terms))
	for i, t := range terms {
		tsyms[i] = symsOf(t)
		if t.Op == "=" && len(t.Args) == 2 && t.Args[0].Op == "var" && strings.Contains(t.Args[0].Name, "!") {
			defOf[i] = t.Args[0].Name
		}
	}
	// relations between two plain names (allocation distinctness/order): relevant only when both are
	isVarRel := func(t *Term) bool {
		if t.Op == "not" && len(t.Args) == 1 {
			t = t.Args[0]
		}
		return (t.Op == "=" || t.Op == ">" || t.Op == "<" || t.Op == ">=" || t.Op == "<=") && len(t.Args) == 2 && t.Args[0].Op == "var" && t.Args[1].Op == "var"
	}
	needAll := make([]bool, len(terms))
	for i, t := range terms {
		needAll[i] = defOf[i] == "" && isVarRel(t)
	}
	have := symsOf(goal)
	in := make([]bool, len(terms))
	for changed := true; changed; {
		changed = false
		for i := range terms {
			if in[i] {
				continue
			}
			hit := false
			if defOf[i] != "" {
				hit = have[defOf[i]]
			} else if needAll[i] {
				hit = true
				for s := range tsyms[i] {
					if !have[s] {
						hit = false
					}
				}
			} else {
				n := 0
				for s := range tsyms[i] {
					if isHub(s) {
						continue
					}
					n++
					if have[s] {
						hit = true
						break
					}
				}
				if n == 0 {
					hit = true
				}
			}
			if hit {
				in[i] = true
				changed = true
				for s := range tsyms[i] {
					have[s] = true
				}
			}
		}
	}
	var out []*Term
	for i, t := range terms {
		if in[i] {
			out = append(out, t)
		}
	}
	return out
}
