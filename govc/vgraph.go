package govc

// Virtual control-flow graph: go/ssa blocks with loops cut (invariants) or unrolled.

import (
	"sort"
	"strconv"
	"strings"

	"golang.org/x/tools/go/ssa"
)

type loopInfo struct {
	head    *ssa.BasicBlock
	body    map[*ssa.BasicBlock]bool // includes head
	ordinal int
	spec    *LoopSpec
}

const (
	nkNormal = iota
	nkBackSink
	nkUnwindSink
)

type vnode struct {
	b     *ssa.BasicBlock
	copy  int
	kind  int
	loop  *loopInfo // cut head: its loop; sinks: the loop
	cut   bool
	preds []*vedge
	succs []*vedge

	// runtime
	reach *Term
	heap  map[string]*Term
	defs  map[ssa.Value]*Val
	memo  map[ssa.Value]*Val
	done  bool
	dead  bool
	id    int
}

type vedge struct {
	from, to *vnode
	predIdx  int // index into to.b.Preds
	succIdx  int // index into from.b.Succs
	// runtime
	cond *Term
	heap map[string]*Term
}

func findLoops(fn *ssa.Function) []*loopInfo {
	byHead := map[*ssa.BasicBlock]*loopInfo{}
	for _, b := range fn.Blocks {
		for _, s := range b.Succs {
			if s.Dominates(b) { // back edge b -> s
				li := byHead[s]
				if li == nil {
					li = &loopInfo{head: s, body: map[*ssa.BasicBlock]bool{s: true}}
					byHead[s] = li
				}
				// natural loop: nodes reaching b without passing s
				stack := []*ssa.BasicBlock{b}
				for len(stack) > 0 {
					n := stack[len(stack)-1]
					stack = stack[:len(stack)-1]
					if li.body[n] {
						continue
					}
					li.body[n] = true
					stack = append(stack, n.Preds...)
				}
			}
		}
	}
	var out []*loopInfo
	for _, li := range byHead {
		out = append(out, li)
	}
	// source order: by the smallest block index that belongs to the loop statement.
	// go/ssa allocates a for/range statement's blocks when it meets the statement, so the
	// minimum index over the loop's blocks orders loops by source position (outer first).
	minIdx := func(li *loopInfo) int {
		m := li.head.Index
		for b := range li.body {
			if b.Index < m {
				m = b.Index
			}
		}
		return m
	}
	sort.Slice(out, func(i, j int) bool { return minIdx(out[i]) < minIdx(out[j]) })
	for i, li := range out {
		li.ordinal = i
	}
	return out
}

type vgraph struct {
	entry *vnode
	nodes []*vnode // topological order
	loops []*loopInfo
}

func buildVGraph(fn *ssa.Function, c *Contract) *vgraph {
	loops := findLoops(fn)
	for _, li := range loops {
		if c != nil {
			li.spec = c.Loops[strconv.Itoa(li.ordinal)]
		}
	}
	inner := func(b *ssa.BasicBlock) *loopInfo { // innermost loop containing b
		var best *loopInfo
		for _, li := range loops {
			if li.body[b] && (best == nil || len(li.body) < len(best.body)) {
				best = li
			}
		}
		return best
	}
	headOf := map[*ssa.BasicBlock]*loopInfo{}
	for _, li := range loops {
		headOf[li.head] = li
	}
	// which loops are unrolled
	unrollOf := func(b *ssa.BasicBlock) *loopInfo {
		for _, li := range loops {
			if li.body[b] && li.spec != nil && li.spec.Unroll > 0 {
				return li
			}
		}
		return nil
	}
	for _, li := range loops {
		if li.spec != nil && li.spec.Unroll > 0 {
			for _, lj := range loops {
				if lj != li && li.body[lj.head] {
					bail("unrolled loop %d of %s contains another loop", li.ordinal, fn)
				}
			}
		}
	}
	_ = inner
	type key struct {
		b    *ssa.BasicBlock
		copy int
	}
	nodes := map[key]*vnode{}
	var all []*vnode
	get := func(b *ssa.BasicBlock, cp int) *vnode {
		k := key{b, cp}
		if n, ok := nodes[k]; ok {
			return n
		}
		n := &vnode{b: b, copy: cp}
		if li := headOf[b]; li != nil && !(li.spec != nil && li.spec.Unroll > 0) {
			n.cut = true
			n.loop = li
		}
		nodes[k] = n
		all = append(all, n)
		return n
	}
	predIndex := func(from, to *ssa.BasicBlock, succIdx int) int {
		// the succIdx-th successor edge of from; if from appears twice in to.Preds, pair them in order
		occ := 0
		for i := 0; i < succIdx; i++ {
			if from.Succs[i] == to {
				occ++
			}
		}
		for i, p := range to.Preds {
			if p == from {
				if occ == 0 {
					return i
				}
				occ--
			}
		}
		panic("pred index")
	}
	entry := get(fn.Blocks[0], 0)
	work := []*vnode{entry}
	seen := map[*vnode]bool{entry: true}
	for len(work) > 0 {
		n := work[len(work)-1]
		work = work[:len(work)-1]
		if n.kind != nkNormal {
			continue
		}
		for si, s := range n.b.Succs {
			var to *vnode
			pi := predIndex(n.b, s, si)
			if li := headOf[s]; li != nil && li.body[n.b] {
				// back edge
				if li.spec != nil && li.spec.Unroll > 0 {
					if n.copy < li.spec.Unroll {
						to = get(s, n.copy+1)
					} else {
						to = &vnode{b: s, kind: nkUnwindSink, loop: li}
						all = append(all, to)
					}
				} else {
					to = &vnode{b: s, kind: nkBackSink, loop: li}
					all = append(all, to)
				}
			} else {
				cp := 0
				if ul := unrollOf(s); ul != nil {
					if ul.body[n.b] {
						cp = n.copy // same iteration
					} else {
						cp = 0 // entering
					}
				}
				to = get(s, cp)
			}
			e := &vedge{from: n, to: to, predIdx: pi, succIdx: si}
			n.succs = append(n.succs, e)
			to.preds = append(to.preds, e)
			if !seen[to] {
				seen[to] = true
				work = append(work, to)
			}
		}
	}
	if c != nil && c.Opts["tree"] != "" {
		// path-sensitive mode: unfold the DAG into a tree (no ite-merging of values and heaps at joins);
		// loop heads with invariants stay shared (their state is havocked anyway)
		count := 0
		memo := map[*vnode]*vnode{}
		var unfold func(n *vnode) *vnode
		unfold = func(n *vnode) *vnode {
			if n.cut {
				if m, ok := memo[n]; ok {
					return m
				}
			}
			count++
			if count > 20000 {
				bail("path explosion unfolding %s", fn)
			}
			cp := &vnode{b: n.b, copy: n.copy, kind: n.kind, loop: n.loop, cut: n.cut}
			if n.cut {
				memo[n] = cp
			}
			for _, e := range n.succs {
				to := unfold(e.to)
				ne := &vedge{from: cp, to: to, predIdx: e.predIdx, succIdx: e.succIdx}
				cp.succs = append(cp.succs, ne)
				to.preds = append(to.preds, ne)
			}
			return cp
		}
		entry = unfold(entry)
	}
	// topological order (graph is acyclic by construction)
	g := &vgraph{entry: entry, loops: loops}
	state := map[*vnode]int{}
	var order []*vnode
	var visit func(n *vnode)
	visit = func(n *vnode) {
		if state[n] != 0 {
			if state[n] == 1 {
				bail("irreducible control flow in %s", fn)
			}
			return
		}
		state[n] = 1
		for i := len(n.succs) - 1; i >= 0; i-- {
			visit(n.succs[i].to)
		}
		state[n] = 2
		order = append(order, n)
	}
	visit(entry)
	for i := len(order) - 1; i >= 0; i-- {
		order[i].id = len(g.nodes)
		g.nodes = append(g.nodes, order[i])
	}
	return g
}

// restrictToRegion makes the block containing the k-th call (source order) to a function whose
// name ends in the given suffix ("callee" or "callee#k") the entry of the virtual graph.
func (fr *Frame) restrictToRegion(spec string) {
	name, ord := spec, 0
	if h := strings.Index(spec, "#"); h >= 0 {
		name = spec[:h]
		ord, _ = strconv.Atoi(spec[h+1:])
	}
	var target *ssa.BasicBlock
	seen := 0
	for _, b := range fr.fn.Blocks {
		for _, in := range b.Instrs {
			c, ok := in.(*ssa.Call)
			if !ok {
				continue
			}
			cn := ""
			if f := c.Common().StaticCallee(); f != nil {
				cn = f.String()
			} else if c.Common().IsInvoke() {
				cn = c.Common().Method.FullName()
			}
			if cn != "" && strings.HasSuffix(cn, name) {
				if seen == ord && target == nil {
					target = b
				}
				seen++
			}
		}
	}
	if target == nil {
		panic(staleErr{"region from " + spec + ": no such call in " + fr.fn.String()})
	}
	var entry *vnode
	for _, n := range fr.g.nodes {
		if n.b == target && n.kind == nkNormal {
			if entry != nil || n.cut {
				bail("region start inside a loop or unfolded graph in %s", fr.fn)
			}
			entry = n
		}
	}
	if entry == nil {
		bail("region start not found in graph of %s", fr.fn)
	}
	for _, li := range fr.g.loops {
		if li.body[target] {
			bail("region start inside a loop in %s", fr.fn)
		}
	}
	keep := map[*vnode]bool{entry: true}
	work := []*vnode{entry}
	for len(work) > 0 {
		n := work[len(work)-1]
		work = work[:len(work)-1]
		for _, e := range n.succs {
			if !keep[e.to] {
				keep[e.to] = true
				work = append(work, e.to)
			}
		}
	}
	var nodes []*vnode
	for _, n := range fr.g.nodes {
		if !keep[n] {
			continue
		}
		var ps []*vedge
		for _, e := range n.preds {
			if keep[e.from] && n != entry {
				ps = append(ps, e)
			}
		}
		n.preds = ps
		nodes = append(nodes, n)
	}
	fr.g.nodes = nodes
	fr.g.entry = entry
}
