package govc

import (
	"fmt"
	"go/types"
	"strings"

	"golang.org/x/tools/go/ssa"
)

// resolveCall: static callee (if any) and the contract that governs the call (if any).
func (x *Exec) resolveCall(c *ssa.CallCommon) (*ssa.Function, *Contract) {
	if c.IsInvoke() {
		k := c.Method.FullName() // (pkg.Iface).Method
		if con, ok := x.eng.Ifaces[k]; ok {
			return nil, con
		}
		return nil, nil
	}
	if f := c.StaticCallee(); f != nil {
		if con, ok := x.eng.Contracts[f.String()]; ok && !con.Inline {
			return f, con
		}
		if f.Origin() != nil {
			if con, ok := x.eng.Contracts[f.Origin().String()]; ok && !con.Inline {
				return f, con
			}
		}
		return f, nil
	}
	return nil, nil
}

func (x *Exec) canInline(f *ssa.Function) bool {
	if f == nil || len(f.Blocks) == 0 || x.noInline {
		return false
	}
	if f.Pkg == nil && f.Origin() == nil && f.Parent() == nil {
		return false
	}
	pkg := f.Pkg
	if pkg == nil && f.Origin() != nil {
		pkg = f.Origin().Pkg
	}
	if pkg == nil && f.Parent() != nil {
		pkg = f.Parent().Pkg
	}
	if pkg == nil {
		return false
	}
	p := pkg.Pkg.Path()
	if strings.HasPrefix(p, "github.com/wader/fq") {
		// small helpers are inlined; anything bigger needs a contract (otherwise it is an unknown call)
		if c, ok := x.eng.Contracts[f.String()]; ok && c.Inline {
			return true
		}
		return len(f.Blocks) <= 16
	}
	switch p {
	case "encoding/binary", "cmp", "math/bits":
		return true
	}
	if p == "slices" || p == "math" {
		switch f.Name() {
		case "Min", "Max":
			return true
		}
	}
	return false
}

var pureExternal = map[string]bool{
	"fmt.Sprintf": true, "fmt.Errorf": true, "fmt.Sprint": true, "errors.New": true, "strconv.Itoa": true,
	"strconv.FormatInt": true, "strconv.FormatUint": true, "strings.Repeat": true, "strings.ToLower": true,
	"strings.ToUpper": true, "strings.TrimSpace": true, "strings.HasPrefix": true, "strings.HasSuffix": true,
	"strings.Contains": true, "strings.Index": true, "strings.Split": true, "strings.Join": true, "strings.TrimPrefix": true,
	"strings.TrimSuffix": true, "strings.TrimLeft": true, "strings.TrimRight": true, "strings.Trim": true,
	"strings.Replace": true, "strings.ReplaceAll": true, "strings.Fields": true, "strings.EqualFold": true,
	"math.Float32frombits": true, "math.Float64frombits": true, "math.Float32bits": true, "math.Float64bits": true,
	"math.Log": true, "math.Ceil": true, "math.Floor": true, "math.Pow": true, "math.Abs": true, "math.Inf": true, "math.NaN": true,
	"math.IsNaN": true, "math.IsInf": true, "math.Copysign": true, "math.Ldexp": true, "math.Trunc": true, "math.Log2": true, "math.Log10": true,
	"errors.Is": true, "errors.As": false, "unicode/utf8.RuneCountInString": true, "unicode/utf8.ValidString": true,
	"unicode/utf8.RuneLen": true, "unicode/utf8.DecodeRune": true, "unicode/utf8.DecodeRuneInString": true, "unicode/utf8.Valid": true,
	"bytes.NewReader": true, "bytes.Equal": true, "bytes.NewBuffer": true, "bytes.IndexByte": true, "bytes.Index": true,
	"(*math/big.Int).Cmp": true, "(*math/big.Int).IsUint64": true, "(*math/big.Int).IsInt64": true, "(*math/big.Int).Uint64": true, "(*math/big.Int).Int64": true,
	"(*math/big.Int).Sign": true, "(*math/big.Int).BitLen": true, "math/big.NewInt": true, "(*math/big.Int).String": true, "(*math/big.Int).Text": true,
	"(*strings.Builder).String": true, "(*strings.Builder).Len": true,
	"unicode.IsPrint": true, "unicode.IsSpace": true, "unicode.IsDigit": true, "unicode.IsLetter": true,
}

func (x *Exec) isPureExternal(c *ssa.CallCommon) bool {
	if f := c.StaticCallee(); f != nil {
		name := f.String()
		if f.Origin() != nil {
			name = f.Origin().String()
		}
		return pureExternal[name]
	}
	return false
}

func (fr *Frame) call(n *vnode, instr *ssa.Call, c *ssa.CallCommon) *Val {
	v := fr.call0(n, instr, c)
	if fr == fr.x.topFrame && fr.contract != nil && len(fr.contract.Asserts) > 0 {
		if _, isB := c.Value.(*ssa.Builtin); !isB {
			fr.callSiteClauses(n, instr, c.StaticCallee(), c, nil, v, true)
		}
	}
	return v
}

func (fr *Frame) call0(n *vnode, instr *ssa.Call, c *ssa.CallCommon) *Val {
	x := fr.x
	if bi, ok := c.Value.(*ssa.Builtin); ok {
		return fr.builtin(n, instr, bi, c)
	}
	callee, con := x.resolveCall(c)
	var args []*Val
	if c.IsInvoke() {
		args = append(args, fr.val(c.Value, n))
	}
	for _, a := range c.Args {
		args = append(args, fr.val(a, n))
	}
	resT := instr.Type()
	name := ""
	if c.IsInvoke() {
		name = c.Method.Name()
		recv := args[0]
		x.vc.Oblige("safety.nil", "", n.reach, Neq(recv.T, IntLit(0)), x.pos(instr.Pos()), "method call on nil interface ("+name+")")
		x.vc.Assume(Implies(n.reach, Neq(recv.T, IntLit(0))))
	}
	var free []*Val
	if callee != nil && !c.IsInvoke() && len(callee.FreeVars) > 0 {
		// direct call of a closure value: the bindings come from the MakeClosure
		if fv := fr.val(c.Value, n); fv.Fn != nil && fv.Fn.Fn == callee {
			free = fv.Fn.Bindings
		} else {
			callee, con = nil, nil
		}
	}
	if callee == nil && !c.IsInvoke() {
		// closure / function value
		fv := fr.val(c.Value, n)
		if fv.Fn != nil {
			callee = fv.Fn.Fn
			free = fv.Fn.Bindings
			if cc, ok := x.eng.Contracts[callee.String()]; ok && !cc.Inline {
				con = cc
			}
		}
	}
	fr.callSiteClauses(n, instr, callee, c, args, nil, false)
	if con != nil {
		if con.Kind == "assume" {
			// an assumed library contract written for particular argument types (e.g. slices.SortFunc on
			// []Range) does not apply to other instantiations: fall back to an unknown call there
			if v, ok := fr.tryApplyAssumed(n, instr, con, callee, args, resT); ok {
				return v
			}
		} else {
			return fr.applyContract(n, instr, con, callee, args, resT)
		}
	}
	if callee != nil && x.canInline(callee) && fr.depth < 6 && !fr.onStack(callee) {
		return fr.inline(n, instr, callee, args, free)
	}
	// unknown callee
	what := "dynamic call"
	if callee != nil {
		what = callee.String()
	} else if c.IsInvoke() {
		what = c.Method.FullName()
	}
	if x.isPureExternal(c) {
		x.eng.Note("call to " + what + ": result arbitrary, assumed not to panic and to modify nothing")
		return x.callResult(n, what, resT)
	}
	if x.unknownPure {
		x.eng.Note("call to " + what + ": no contract; by the contract's option unknown-calls-pure the result is arbitrary and the heap is assumed unchanged")
		return x.callResult(n, what, resT)
	}
	x.eng.Note("call to " + what + ": no contract; result arbitrary, whole mutable heap havocked, assumed not to panic")
	x.havocAll(n)
	return x.callResult(n, what, resT)
}

func (x *Exec) callResult(n *vnode, what string, t types.Type) *Val {
	if tup, ok := t.(*types.Tuple); ok && tup.Len() == 0 {
		return &Val{Ty: t}
	}
	hint := what
	if i := strings.LastIndex(hint, "."); i >= 0 {
		hint = hint[i+1:]
	}
	v := x.freshVal("r$"+ident(hint), t)
	if strings.HasPrefix(hint, "New") && v.T != nil {
		_, isIface := t.Underlying().(*types.Interface)
		if _, isPtr := t.Underlying().(*types.Pointer); isPtr || isIface {
			// library constructors return non-nil pointers
			x.vc.Assume(Neq(v.T, IntLit(0)))
			x.eng.Note("result of constructor " + what + " assumed non-nil")
		}
	}
	return v
}

func (x *Exec) havocAll(n *vnode) {
	for _, k := range sortedKeys(n.heap) {
		if x.isImmutableComp(k) {
			continue
		}
		n.heap[k] = x.eng.FreshVar(k, n.heap[k].S)
		x.initCompAxiomsWF(k, n.heap[k])
	}
	for _, k := range sortedKeys(x.heap0) {
		if _, ok := n.heap[k]; !ok && !x.isImmutableComp(k) {
			n.heap[k] = x.eng.FreshVar(k, x.heap0[k].S)
			x.initCompAxiomsWF(k, n.heap[k])
		}
	}
	x.havocked = true
}

func (fr *Frame) onStack(f *ssa.Function) bool {
	for p := fr; p != nil; p = p.parent {
		if p.fn == f {
			return true
		}
	}
	return false
}

func (fr *Frame) inline(n *vnode, instr *ssa.Call, callee *ssa.Function, args, free []*Val) *Val {
	x := fr.x
	var con *Contract
	if c, ok := x.eng.Contracts[callee.String()]; ok && c.Inline {
		con = c
	}
	// loop specs for the inlined callee given by the function under contract: "loop callee.N ..."
	if top := x.topFrame; top != nil && top.contract != nil {
		pref := shortName(callee) + "."
		for k, ls := range top.contract.Loops {
			if strings.HasPrefix(k, pref) {
				if con == nil || !con.synth {
					base := con
					con = &Contract{Key: callee.String(), Inline: true, Loops: map[string]*LoopSpec{}, Opts: map[string]string{}, synth: true}
					if base != nil {
						for k2, v := range base.Loops {
							con.Loops[k2] = v
						}
					}
				}
				con.Loops[strings.TrimPrefix(k, pref)] = ls
			}
		}
	}
	sub := x.newFrame(callee, fr, args, free, con)
	sub.prefix = fr.prefix + "inl." + shortName(callee) + "."
	exits := sub.run(n.reach, n.heap)
	if len(exits) == 0 {
		// callee never returns on this path
		n.dead = true
		n.reach = False
		return &Val{Ty: instr.Type()}
	}
	// merge exits
	edges := make([]*vedge, len(exits))
	var cs []*Term
	for i, ex := range exits {
		edges[i] = &vedge{cond: ex.cond, heap: ex.heap}
		cs = append(cs, ex.cond)
	}
	n.reach = Or(cs...)
	n.heap = x.mergeHeaps(edges)
	nres := len(exits[0].results)
	if nres == 0 {
		return &Val{Ty: instr.Type()}
	}
	var outs []*Val
	for r := 0; r < nres; r++ {
		vals := make([]*Val, len(exits))
		for i, ex := range exits {
			vals[i] = ex.results[r]
		}
		if len(exits) == 1 {
			outs = append(outs, vals[0])
		} else {
			outs = append(outs, x.mergeVals(edges, vals))
		}
	}
	if nres == 1 {
		return outs[0]
	}
	return &Val{Tup: outs, Ty: instr.Type()}
}

func shortName(f *ssa.Function) string {
	s := f.Name()
	if f.Signature.Recv() != nil {
		t := f.Signature.Recv().Type().String()
		if i := strings.LastIndex(t, "."); i >= 0 {
			t = t[i+1:]
		}
		s = strings.TrimPrefix(t, "*") + "." + s
	}
	return s
}

// paramNames of a contract: explicit list or the ssa parameter names.
func contractParamNames(con *Contract, callee *ssa.Function, nargs int) []string {
	if len(con.Params) > 0 {
		return con.Params
	}
	var out []string
	if callee != nil {
		for _, p := range callee.Params {
			out = append(out, p.Name())
		}
	}
	for len(out) < nargs {
		out = append(out, fmt.Sprintf("arg%d", len(out)))
	}
	return out
}

func resultNames(con *Contract, sig *types.Signature) []string {
	if con != nil && len(con.Results) > 0 {
		return con.Results
	}
	var out []string
	res := sig.Results()
	for i := 0; i < res.Len(); i++ {
		nm := res.At(i).Name()
		if nm == "" || nm == "_" {
			if res.Len() == 1 {
				nm = "result"
			} else {
				nm = fmt.Sprintf("result%d", i)
			}
		}
		out = append(out, nm)
	}
	return out
}

// contractEnv builds the spec environment of a contract instance.
func (x *Exec) contractEnv(con *Contract, callee *ssa.Function, sig *types.Signature, isInvoke bool, args []*Val, argTypes []types.Type,
	results []*Val, heap map[string]*Term, pkg *types.Package) *SpecEnv {
	names := contractParamNames(con, callee, len(args))
	if con.Kind == "iface" && len(con.Params) > 0 && len(con.Params) == len(args)-1 {
		names = append([]string{"this"}, con.Params...)
	}
	m := map[string]*SV{}
	for i, a := range args {
		if i < len(names) {
			sv := &SV{T: a.T, Ty: argTypes[i]}
			m[names[i]] = sv
			if i == 0 && (isInvoke || sig.Recv() != nil) {
				m["this"] = sv
			}
		}
	}
	if results != nil {
		rn := resultNames(con, sig)
		for i, r := range results {
			if i < len(rn) {
				m[rn[i]] = &SV{T: r.T, Ty: sig.Results().At(i).Type()}
			}
			if len(results) == 1 {
				m["result"] = &SV{T: r.T, Ty: sig.Results().At(0).Type()}
			}
		}
	}
	return &SpecEnv{x: x, heap: heap, bound: map[string]*SV{}, pkg: pkg,
		names: func(s string) *SV { return m[s] }}
}

func (fr *Frame) applyContract(n *vnode, instr *ssa.Call, con *Contract, callee *ssa.Function, args []*Val, resT types.Type) *Val {
	x := fr.x
	if con.NoReturn {
		defer func() { x.vc.Assume(Not(n.reach)) }()
	}
	c := instr.Common()
	sig := c.Signature()
	var argTypes []types.Type
	if c.IsInvoke() {
		argTypes = append(argTypes, c.Value.Type())
	}
	for _, a := range c.Args {
		argTypes = append(argTypes, a.Type())
	}
	if callee != nil && callee.Signature.Recv() != nil && !c.IsInvoke() {
		sig = callee.Signature
	}
	pkg := fr.fn.Pkg
	var tpkg *types.Package
	if callee != nil && callee.Pkg != nil {
		tpkg = callee.Pkg.Pkg
	} else if callee != nil && callee.Origin() != nil && callee.Origin().Pkg != nil {
		tpkg = callee.Origin().Pkg.Pkg
	} else if pkg != nil {
		tpkg = pkg.Pkg
	}
	if c.IsInvoke() && c.Method.Pkg() != nil {
		tpkg = c.Method.Pkg()
	}
	cname := con.Key
	if i := strings.LastIndex(cname, "/"); i >= 0 {
		cname = cname[i+1:]
	}
	var refined []*Contract
	for _, rn := range con.Refines {
		if ic := x.eng.findIface(callee, rn); ic != nil {
			refined = append(refined, ic)
		}
	}
	for _, ic := range refined {
		ipre := x.contractEnv(ic, nil, sig, true, args, argTypes, nil, n.heap, tpkg)
		for i, r := range ic.Requires {
			t := ipre.evalBool(r.E)
			if !x.assumeCalleePre {
				x.vc.Oblige("call-pre", fmt.Sprintf("%scall-pre.%s.i%d#%d", fr.prefix, cname, i, x.callSeq(cname+".i", i)), n.reach, t, x.pos(instr.Pos()), r.Text)
			}
			x.vc.Assume(Implies(n.reach, t))
		}
	}
	pre := x.contractEnv(con, callee, sig, c.IsInvoke(), args, argTypes, nil, n.heap, tpkg)
	for i, r := range con.Requires {
		t := pre.evalBool(r.E)
		if !x.assumeCalleePre || con.Kind == "assume" {
			// preconditions of standard-library functions (e.g. strings.Repeat count >= 0) are always checked
			x.vc.Oblige("call-pre", fmt.Sprintf("%scall-pre.%s.%d#%d", fr.prefix, cname, i, x.callSeq(cname, i)), n.reach, t, x.pos(instr.Pos()), r.Text)
		} else {
			x.eng.Note("callee preconditions assumed (not checked) in " + x.vc.Fn.String() + ": safety-only contract over unbounded magnitudes")
		}
		x.vc.Assume(Implies(n.reach, t))
	}
	if con.Trusted {
		x.eng.usedTrusted[con.Key] = true
	}
	oldHeap := cloneHeap(n.heap)
	// havoc what the callee may modify
	if con.Havoc == "all" {
		x.havocAll(n)
	}
	for _, m := range con.Modifies {
		fr.havocClause(n, m, pre)
	}
	for _, ic := range refined {
		// the refining method's own modifies clause is authoritative for concrete state; ghost state
		// (cursors) named by the interface contract is havocked as the interface says
		ipre := x.contractEnv(ic, nil, sig, true, args, argTypes, nil, oldHeap, tpkg)
		for _, m := range ic.Modifies {
			if m.E.Kind == "call" {
				ipre.heap = n.heap
				fr.havocClause(n, m, ipre)
			}
		}
	}
	// results
	var results []*Val
	var res *Val
	if tup, ok := resT.(*types.Tuple); ok {
		res = &Val{Ty: resT}
		for i := 0; i < tup.Len(); i++ {
			v := x.freshVal("r$"+ident(cname), tup.At(i).Type())
			res.Tup = append(res.Tup, v)
			results = append(results, v)
		}
	} else {
		res = x.freshVal("r$"+ident(cname), resT)
		results = []*Val{res}
	}
	// a freshly allocated result object: its fields did not exist in the caller's heap
	{
		rn := resultNames(con, sig)
		for i, r := range results {
			if r.T == nil || r.T.S.K != KInt {
				continue
			}
			pt, isPtr := derefType(r.Ty)
			if !isPtr {
				continue
			}
			if _, isStruct := pt.Underlying().(*types.Struct); !isStruct {
				continue
			}
			mentions := con.Fresh
			for _, en := range con.Ensures {
				if i < len(rn) && strings.Contains(en.Text, "fresh("+rn[i]+")") || len(results) == 1 && strings.Contains(en.Text, "fresh(result)") {
					mentions = true
				}
			}
			if mentions {
				fr.havocObjectX(n, r.T, pt, true)
			}
		}
	}
	if con.Fresh {
		for _, r := range results {
			if r.T != nil && r.T.S.K == KInt && isRefType(r.Ty) {
				x.vc.Assume(Implies(n.reach, Or(Eq(r.T, IntLit(0)), Gt(r.T, x.top0))))
			}
		}
	} else {
		// results that are references: either fresh or reachable before; no constraint
	}
	post := x.contractEnv(con, callee, sig, c.IsInvoke(), args, argTypes, results, n.heap, tpkg)
	oldEnv := x.contractEnv(con, callee, sig, c.IsInvoke(), args, argTypes, nil, oldHeap, tpkg)
	post.old = oldEnv
	for _, e := range con.Ensures {
		t := post.evalBool(e.E)
		x.vc.Assume(Implies(n.reach, t))
	}
	for _, e := range con.Defines {
		x.vc.Assume(Implies(n.reach, post.evalBool(e.E)))
	}
	for _, ic := range refined {
		ipost := x.contractEnv(ic, nil, sig, true, args, argTypes, results, n.heap, tpkg)
		ipost.old = x.contractEnv(ic, nil, sig, true, args, argTypes, nil, oldHeap, tpkg)
		for _, e := range ic.Ensures {
			x.vc.Assume(Implies(n.reach, ipost.evalBool(e.E)))
		}
	}
	return res
}

func (fr *Frame) tryApplyAssumed(n *vnode, instr *ssa.Call, con *Contract, callee *ssa.Function, args []*Val, resT types.Type) (v *Val, ok bool) {
	// evaluate all clauses once on a scratch copy of the state to see whether they type-check here
	defer func() {
		if r := recover(); r != nil {
			if se, isStale := r.(staleErr); isStale {
				fr.x.eng.Note("assumed contract " + con.Key + " does not apply to the argument types at a call in " + fr.fn.String() + " (" + se.msg + "): treated as an unknown call")
				v, ok = nil, false
				return
			}
			panic(r)
		}
	}()
	saveHeap := cloneHeap(n.heap)
	saveN := len(fr.x.vc.Assumes)
	saveO := len(fr.x.vc.Obls)
	v = fr.applyContract(n, instr, con, callee, args, resT)
	_ = saveHeap
	_ = saveN
	_ = saveO
	return v, true
}

func (x *Exec) callSeq(name string, i int) int {
	k := fmt.Sprintf("%s.%d", name, i)
	x.callSeqs[k]++
	return x.callSeqs[k] - 1
}

// havocClause: modifies item.  Forms:  s (slice: its backing array row), this.f / p.f (field of that object),
// cursor(x) / fpos(x) (ghost field at x), "all".
func (fr *Frame) havocClause(n *vnode, m *Clause, env *SpecEnv) {
	x := fr.x
	e := m.E
	if e.Kind == "call" && e.Name == "elems" && len(e.Args) == 1 {
		sv := env.eval(e.Args[0])
		if sv.T.S == SSlice {
			fr.havocSliceElems(n, sv)
			return
		}
	}
	switch e.Kind {
	case "ident":
		if e.Name == "all" {
			x.havocAll(n)
			return
		}
		if e.Name == "nothing" {
			return
		}
		if e.Name == "cursors" {
			cur := x.comp(n.heap, "G$cursor", SArray(SInt, SInt))
			n.heap["G$cursor"] = x.eng.FreshVar("G$cursor", cur.S)
			return
		}
		sv := env.eval(e)
		if sv.T.S == SSlice {
			fr.havocSliceElems(n, sv)
			return
		}
	case "field":
		base := env.eval(e.Args[0])
		bt, isPtr := derefType(base.Ty)
		if isPtr {
			st := bt.Underlying().(*types.Struct)
			for i := 0; i < st.NumFields(); i++ {
				if st.Field(i).Name() == e.Name {
					if _, isStruct := st.Field(i).Type().Underlying().(*types.Struct); isStruct {
						fr.havocObject(n, x.embRef(bt, e.Name, base.T), st.Field(i).Type())
						return
					}
					p := x.fieldPlace(bt, i, base.T)
					x.writePlace(n.heap, p, x.freshVal("hv$"+e.Name, st.Field(i).Type()).T)
					return
				}
			}
		}
	case "call":
		if ghostFields[e.Name] && len(e.Args) == 1 {
			a := env.eval(e.Args[0])
			comp := "G$" + e.Name
			cur := x.comp(n.heap, comp, SArray(SInt, SInt))
			n.heap[comp] = Store(cur, a.T, x.eng.FreshVar("hv$"+e.Name, SInt))
			return
		}
		if e.Name == "cursorsBelow" && len(e.Args) == 1 {
			// cursors of the receiver and of everything allocated before it (its sub-readers)
			a := env.eval(e.Args[0])
			comp := "G$cursor"
			cur := x.comp(n.heap, comp, SArray(SInt, SInt))
			nw := x.eng.FreshVar(comp, cur.S)
			r := Var("r?", SInt)
			x.vc.Assume(Forall([]*Term{r}, Implies(Gt(r, a.T), Eq(App("select", SInt, nw, r), App("select", SInt, cur, r)))))
			n.heap[comp] = nw
			return
		}
		if e.Name == "object" && len(e.Args) == 1 {
			a := env.eval(e.Args[0])
			bt, _ := derefType(a.Ty)
			fr.havocObject(n, a.T, bt)
			return
		}
		if e.Name == "deref" && len(e.Args) == 1 {
			// the cell a pointer to a non-struct value points to
			a := env.eval(e.Args[0])
			pt, isPtr := derefType(a.Ty)
			if isPtr {
				srt := x.eng.SortOf(pt)
				pl := &Place{Comp: cellComp(srt, isRefType(pt)), Elem: srt, Ref: a.T, Ty: pt}
				x.writePlace(n.heap, pl, x.freshVal("hv$cell", pt).T)
				return
			}
		}
	}
	stale("unsupported modifies item %q", m.Text)
}

func (fr *Frame) havocSliceElems(n *vnode, sv *SV) {
	x := fr.x
	el := sv.Ty.Underlying().(*types.Slice).Elem()
	es := x.eng.SortOf(el)
	comp := memComp(es)
	cur := x.comp(n.heap, comp, memSort(es))
	// only elements inside [off, off+cap) of the row may change
	row := x.eng.FreshVar(comp+"$row", cur.S.Elem)
	oldRow := Select(cur, SArr(sv.T))
	j := Var("j?", SInt)
	x.vc.Assume(Forall([]*Term{j}, Implies(Or(Lt(j, SOff(sv.T)), Ge(j, Add(SOff(sv.T), SCap(sv.T)))),
		Eq(App("select", es, row, j), App("select", es, oldRow, j)))))
	if x.opaque["bitAt"] && es.K == KBV && es.W == 8 {
		B := Var("B?", SInt)
		lo := Mul(IntLit(8), SOff(sv.T))
		hi := Mul(IntLit(8), Add(SOff(sv.T), SCap(sv.T)))
		q := Forall([]*Term{B}, Implies(Or(Lt(B, lo), Ge(B, hi)), Eq(x.rowBit(row, B), x.rowBit(oldRow, B))))
		q.Pats = [][]*Term{{x.rowBit(row, B)}}
		x.vc.Assume(q)
	}
	n.heap[comp] = x.nameBig(Store(cur, SArr(sv.T), row), comp)
}

func (fr *Frame) havocObject(n *vnode, ref *Term, t types.Type) {
	fr.havocObjectX(n, ref, t, false)
}

func (fr *Frame) havocObjectX(n *vnode, ref *Term, t types.Type, all bool) {
	x := fr.x
	st, ok := t.Underlying().(*types.Struct)
	if !ok {
		bail("havoc object of type %s", t)
	}
	for i := 0; i < st.NumFields(); i++ {
		f := st.Field(i)
		if _, isStruct := f.Type().Underlying().(*types.Struct); isStruct {
			fr.havocObjectX(n, x.embRef(t, f.Name(), ref), f.Type(), all)
			continue
		}
		if ts, _ := x.typeSpecOf(t); !all && ts != nil && contains(ts.Immutable, f.Name()) {
			continue
		}
		p := x.fieldPlace(t, i, ref)
		x.writePlace(n.heap, p, x.freshVal("hv$"+f.Name(), f.Type()).T)
	}
}

func contains(ss []string, s string) bool {
	for _, a := range ss {
		if a == s {
			return true
		}
	}
	return false
}

// modClauseTargets: component-level view of a callee's modifies clause for the loop analysis.
func (x *Exec) modClauseTargets(m *Clause, callee *ssa.Function, c *ssa.CallCommon, con *Contract, f func(comp string, arg ssa.Value, whole bool)) {
	e := m.E
	names := contractParamNames(con, callee, len(c.Args)+1)
	if con.Kind == "iface" && c.IsInvoke() && len(con.Params) > 0 {
		names = append([]string{"this"}, con.Params...)
	}
	argOf := func(name string) (ssa.Value, types.Type) {
		var all []ssa.Value
		if c.IsInvoke() {
			all = append(all, c.Value)
		}
		all = append(all, c.Args...)
		for i, n := range names {
			if (n == name || (name == "this" && i == 0)) && i < len(all) {
				return all[i], all[i].Type()
			}
		}
		return nil, nil
	}
	switch e.Kind {
	case "ident":
		if e.Name == "all" {
			f("*", nil, true)
			return
		}
		if e.Name == "nothing" {
			return
		}
		if e.Name == "cursors" {
			f("G$cursor", nil, true)
			return
		}
		if a, t := argOf(e.Name); a != nil {
			if sl, ok := t.Underlying().(*types.Slice); ok {
				f(memComp(x.eng.SortOf(sl.Elem())), a, false)
				return
			}
		}
	case "field":
		if e.Args[0].Kind == "ident" {
			if a, t := argOf(e.Args[0].Name); a != nil {
				bt, _ := derefType(t)
				if st, ok := bt.Underlying().(*types.Struct); ok {
					for i := 0; i < st.NumFields(); i++ {
						if st.Field(i).Name() == e.Name {
							s := x.eng.SortOf(st.Field(i).Type())
							f(fieldComp(typeKey(bt), e.Name, s, isRefType(st.Field(i).Type())), a, false)
							return
						}
					}
				}
			}
		}
	case "call":
		if e.Name == "elems" && len(e.Args) == 1 {
			// elements of a slice held in a field: element type from the field's type
			if fe := e.Args[0]; fe.Kind == "field" && fe.Args[0].Kind == "ident" {
				if a, t := argOf(fe.Args[0].Name); a != nil {
					bt, _ := derefType(t)
					if st, ok := bt.Underlying().(*types.Struct); ok {
						for i := 0; i < st.NumFields(); i++ {
							if st.Field(i).Name() == fe.Name {
								if sl, ok := st.Field(i).Type().Underlying().(*types.Slice); ok {
									f(memComp(x.eng.SortOf(sl.Elem())), nil, true)
									return
								}
							}
						}
					}
				}
			}
		}
		if e.Name == "deref" {
			f("*", nil, true)
			return
		}
		if ghostFields[e.Name] {
			f("G$"+e.Name, nil, true)
			return
		}
		if e.Name == "cursorsBelow" {
			f("G$cursor", nil, true)
			return
		}
	}
	f("*", nil, true)
}

// ---------- builtins ----------

func (fr *Frame) builtin(n *vnode, instr *ssa.Call, bi *ssa.Builtin, c *ssa.CallCommon) *Val {
	x := fr.x
	switch bi.Name() {
	case "len", "cap":
		a := fr.val(c.Args[0], n)
		switch u := c.Args[0].Type().Underlying().(type) {
		case *types.Slice:
			if bi.Name() == "len" {
				return &Val{T: SLen(a.T), Ty: instr.Type()}
			}
			return &Val{T: SCap(a.T), Ty: instr.Type()}
		case *types.Basic:
			return &Val{T: x.strLen(a.T), Ty: instr.Type()}
		case *types.Array:
			return &Val{T: IntLit(u.Len()), Ty: instr.Type()}
		case *types.Pointer:
			if arr, ok := u.Elem().Underlying().(*types.Array); ok {
				return &Val{T: IntLit(arr.Len()), Ty: instr.Type()}
			}
		case *types.Map:
			v := x.freshVal("maplen", instr.Type())
			x.vc.Assume(Ge(v.T, IntLit(0)))
			return v
		}
		bail("len/cap of %s", c.Args[0].Type())
	case "min", "max":
		a, b := fr.term(c.Args[0], n), fr.term(c.Args[1], n)
		r := a
		for _, arg := range c.Args[1:] {
			b = fr.term(arg, n)
			var le *Term
			if r.S.K == KInt {
				le = Le(r, b)
			} else if r.S.K == KBV {
				le = BVCmp("bvule", r, b)
			} else {
				bail("min/max on %s", r.S)
			}
			if bi.Name() == "min" {
				r = Ite(le, r, b)
			} else {
				r = Ite(le, b, r)
			}
		}
		return &Val{T: r, Ty: instr.Type()}
	case "copy":
		return fr.builtinCopy(n, instr, c)
	case "append":
		return fr.builtinAppend(n, instr, c)
	case "print", "println":
		return &Val{Ty: instr.Type()}
	case "clear":
		if _, ok := c.Args[0].Type().Underlying().(*types.Slice); ok {
			return fr.builtinClear(n, instr, c)
		}
		x.eng.Note("delete/clear of a map not modelled")
		return &Val{Ty: instr.Type()}
	case "delete":
		x.eng.Note("delete/clear of a map not modelled")
		return &Val{Ty: instr.Type()}
	case "ssa:wrapnilchk":
		return fr.val(c.Args[0], n)
	}
	bail("builtin %s in %s", bi.Name(), fr.fn)
	return nil
}

func (fr *Frame) builtinCopy(n *vnode, instr *ssa.Call, c *ssa.CallCommon) *Val {
	x := fr.x
	dst, src := fr.val(c.Args[0], n), fr.val(c.Args[1], n)
	sl, ok := c.Args[0].Type().Underlying().(*types.Slice)
	if !ok {
		bail("copy destination %s", c.Args[0].Type())
	}
	es := x.eng.SortOf(sl.Elem())
	comp := memComp(es)
	var srcLen *Term
	srcIsStr := src.T.S == SStr
	if srcIsStr {
		srcLen = x.strLen(src.T)
	} else {
		srcLen = SLen(src.T)
	}
	cnt := Ite(Le(SLen(dst.T), srcLen), SLen(dst.T), srcLen)
	cntV := x.eng.FreshVar("copyn", SInt)
	x.vc.Assume(Eq(cntV, cnt))
	cur := x.comp(n.heap, comp, memSort(es))
	if x.frameOK != nil {
		if g := x.frameOK(&Place{Comp: comp, Elem: es, Ref: SArr(dst.T), Idx: SOff(dst.T)}, n.heap); g != nil {
			x.vc.Oblige("frame", "", And(n.reach, Gt(cntV, IntLit(0))), g, x.pos(instr.Pos()), "copy outside the contract's modifies clause: "+comp)
		}
	}
	row := x.eng.FreshVar(comp+"$row", cur.S.Elem)
	oldRow := Select(cur, SArr(dst.T))
	j := Var("j?", SInt)
	inside := And(Ge(j, SOff(dst.T)), Lt(j, Add(SOff(dst.T), cntV)))
	var srcElem *Term
	if srcIsStr {
		x.eng.DeclareUF("strAt", SBV(8), SStr, SInt)
		srcElem = App("strAt", SBV(8), src.T, Sub(j, SOff(dst.T)))
	} else {
		srcElem = App("select", es, Select(cur, SArr(src.T)), Add(SOff(src.T), Sub(j, SOff(dst.T))))
	}
	x.vc.Assume(Implies(n.reach, Forall([]*Term{j}, And(
		Implies(inside, Eq(App("select", es, row, j), srcElem)),
		Implies(Not(inside), Eq(App("select", es, row, j), App("select", es, oldRow, j)))))))
	if x.opaque["bitAt"] && es.K == KBV && es.W == 8 && !srcIsStr {
		B := Var("B?", SInt)
		lo := Mul(IntLit(8), SOff(dst.T))
		hi := Mul(IntLit(8), Add(SOff(dst.T), cntV))
		srcRow := Select(cur, SArr(src.T))
		q := Forall([]*Term{B}, Ite(And(Le(lo, B), Lt(B, hi)),
			Eq(x.rowBit(row, B), x.rowBit(srcRow, Add(Sub(B, lo), Mul(IntLit(8), SOff(src.T))))),
			Eq(x.rowBit(row, B), x.rowBit(oldRow, B))))
		q.Pats = [][]*Term{{x.rowBit(row, B)}}
		x.vc.Assume(Implies(n.reach, q))
	}
	// memmove semantics for overlapping ranges differ from the formula above only when src and dst share the row;
	// require they do not, or that the ranges coincide.
	if !srcIsStr {
		x.vc.Oblige("safety.copy-overlap", "", n.reach, Or(Neq(SArr(dst.T), SArr(src.T)), Eq(cntV, IntLit(0)), Eq(SOff(dst.T), SOff(src.T))),
			x.pos(instr.Pos()), "copy between overlapping ranges of one array is not modelled")
	}
	n.heap[comp] = x.nameBig(Store(cur, SArr(dst.T), row), comp)
	return &Val{T: cntV, Ty: instr.Type()}
}

// clear(s) on a slice: every element of s becomes the zero value, nothing else changes
func (fr *Frame) builtinClear(n *vnode, instr *ssa.Call, c *ssa.CallCommon) *Val {
	x := fr.x
	dst := fr.val(c.Args[0], n)
	sl := c.Args[0].Type().Underlying().(*types.Slice)
	es := x.eng.SortOf(sl.Elem())
	comp := memComp(es)
	cur := x.comp(n.heap, comp, memSort(es))
	if x.frameOK != nil {
		if g := x.frameOK(&Place{Comp: comp, Elem: es, Ref: SArr(dst.T), Idx: SOff(dst.T)}, n.heap); g != nil {
			x.vc.Oblige("frame", "", And(n.reach, Gt(SLen(dst.T), IntLit(0))), g, x.pos(instr.Pos()), "clear outside the contract's modifies clause: "+comp)
		}
	}
	row := x.eng.FreshVar(comp+"$row", cur.S.Elem)
	oldRow := Select(cur, SArr(dst.T))
	j := Var("j?", SInt)
	inside := And(Ge(j, SOff(dst.T)), Lt(j, Add(SOff(dst.T), SLen(dst.T))))
	zero := x.zeroOf(sl.Elem())
	x.vc.Assume(Implies(n.reach, Forall([]*Term{j}, And(
		Implies(inside, Eq(App("select", es, row, j), zero)),
		Implies(Not(inside), Eq(App("select", es, row, j), App("select", es, oldRow, j)))))))
	if x.opaque["bitAt"] && es.K == KBV && es.W == 8 {
		B := Var("B?", SInt)
		lo := Mul(IntLit(8), SOff(dst.T))
		hi := Mul(IntLit(8), Add(SOff(dst.T), SLen(dst.T)))
		q := Forall([]*Term{B}, Ite(And(Le(lo, B), Lt(B, hi)),
			Not(x.rowBit(row, B)),
			Eq(x.rowBit(row, B), x.rowBit(oldRow, B))))
		q.Pats = [][]*Term{{x.rowBit(row, B)}}
		x.vc.Assume(Implies(n.reach, q))
	}
	n.heap[comp] = x.nameBig(Store(cur, SArr(dst.T), row), comp)
	return &Val{Ty: instr.Type()}
}

func (fr *Frame) builtinAppend(n *vnode, instr *ssa.Call, c *ssa.CallCommon) *Val {
	x := fr.x
	dst, src := fr.val(c.Args[0], n), fr.val(c.Args[1], n)
	sl := c.Args[0].Type().Underlying().(*types.Slice)
	es := x.eng.SortOf(sl.Elem())
	comp := memComp(es)
	cur := x.comp(n.heap, comp, memSort(es))
	var srcLen *Term
	srcIsStr := src.T.S == SStr
	if srcIsStr {
		srcLen = x.strLen(src.T)
	} else {
		srcLen = SLen(src.T)
	}
	newLen := Add(SLen(dst.T), srcLen)
	fits := Le(newLen, SCap(dst.T))
	// result: in place if it fits, else a fresh array
	fresh := x.newRef("app")
	// named (not ite terms): they occur in quantifier triggers, where z3 rejects ite
	resArr := x.eng.FreshVar("apparr", SInt)
	resOff := x.eng.FreshVar("appoff", SInt)
	x.vc.Assume(Eq(resArr, Ite(fits, SArr(dst.T), fresh)))
	x.vc.Assume(Eq(resOff, Ite(fits, SOff(dst.T), IntLit(0))))
	ncap := x.eng.FreshVar("appcap", SInt)
	x.vc.Assume(Implies(n.reach, Ge(ncap, newLen)))
	resCap := Ite(fits, SCap(dst.T), ncap)
	res := MkSlice(resArr, resOff, newLen, resCap)
	row := x.eng.FreshVar(comp+"$row", cur.S.Elem)
	oldDstRow := Select(cur, SArr(dst.T))
	// logical-index formulation: triggers are element terms s[k] (index wrapped in "at" for non-byte elements)
	k := Var("k?", SInt)
	j := Var("j?", SInt)
	resElem := App("select", es, row, ElemIdx(resOff, k, es))
	var srcElem *Term
	if srcIsStr {
		x.eng.DeclareUF("strAt", SBV(8), SStr, SInt)
		srcElem = App("strAt", SBV(8), src.T, Sub(k, SLen(dst.T)))
	} else {
		srcElem = App("select", es, Select(cur, SArr(src.T)), ElemIdx(SOff(src.T), Sub(k, SLen(dst.T)), es))
	}
	inOld := And(Ge(k, IntLit(0)), Lt(k, SLen(dst.T)))
	inNew := And(Ge(k, SLen(dst.T)), Lt(k, newLen))
	q1 := Forall([]*Term{k}, And(
		Implies(inOld, Eq(resElem, App("select", es, oldDstRow, ElemIdx(SOff(dst.T), k, es)))),
		Implies(inNew, Eq(resElem, srcElem))))
	q1.Pats = [][]*Term{{resElem}}
	// in place: everything outside [off, off+newLen) of the row is untouched
	lo := Add(resOff, IntLit(0))
	q2 := Forall([]*Term{j}, Implies(And(fits, Or(Lt(j, lo), Ge(j, Add(resOff, newLen)))), Eq(App("select", es, row, j), App("select", es, oldDstRow, j))))
	q2.Pats = [][]*Term{{App("select", es, row, j)}}
	x.vc.Assume(Implies(n.reach, And(q1, q2)))
	if x.opaque["bitAt"] && es.K == KBV && es.W == 8 {
		bail("append to a byte slice in opaque bit mode is not modelled in %s", fr.fn)
	}
	if x.frameOK != nil {
		// writing in place into spare capacity of an existing array is a store
		g := x.frameOK(&Place{Comp: comp, Elem: es, Ref: SArr(dst.T), Idx: SOff(dst.T)}, n.heap)
		if g != nil {
			x.vc.Oblige("frame", "", And(n.reach, fits, Gt(srcLen, IntLit(0))), g, x.pos(instr.Pos()), "append writes into spare capacity of an array outside the modifies clause")
		}
	}
	n.heap[comp] = x.nameBig(Store(cur, resArr, row), comp)
	return &Val{T: res, Ty: instr.Type()}
}

// callAsserts: cut-point assertions of the function under contract attached to this call site.
func (fr *Frame) callSiteClauses(n *vnode, instr *ssa.Call, callee *ssa.Function, c *ssa.CallCommon, args []*Val, result *Val, after bool) {
	x := fr.x
	if fr != x.topFrame || fr.contract == nil || len(fr.contract.Asserts) == 0 {
		return
	}
	name := "dynamic"
	if callee != nil {
		name = callee.String()
	} else if c.IsInvoke() {
		name = c.Method.FullName()
	}
	for ai, as := range fr.contract.Asserts {
		if as.Trust != after {
			continue
		}
		short := strings.TrimSuffix(name, "[int64]")
		if !(strings.HasSuffix(name, as.Callee) || strings.HasSuffix(short, as.Callee)) {
			continue
		}
		// ordinal of this call site among the calls matching the clause, in source (SSA block) order
		ord := 0
		found := false
		for _, b := range fr.fn.Blocks {
			for _, in := range b.Instrs {
				ci, isCall := in.(*ssa.Call)
				if !isCall {
					continue
				}
				if _, isB := ci.Common().Value.(*ssa.Builtin); isB {
					continue
				}
				cn := "dynamic"
				if f := ci.Common().StaticCallee(); f != nil {
					cn = f.String()
				} else if ci.Common().IsInvoke() {
					cn = ci.Common().Method.FullName()
				}
				cs := strings.TrimSuffix(cn, "[int64]")
				if !(strings.HasSuffix(cn, as.Callee) || strings.HasSuffix(cs, as.Callee)) {
					continue
				}
				if ci == instr {
					found = true
					break
				}
				ord++
			}
			if found {
				break
			}
		}
		if !found {
			ord = x.callSeqAt(fmt.Sprintf("assert-site.%d", ai), instr)
		}
		if as.Ord >= 0 && as.Ord != ord {
			continue
		}
		save := fr.extraNames
		en := map[string]*Val{}
		for k, v := range save {
			en[k] = v
		}
		for i, a := range args {
			en[fmt.Sprintf("arg%d", i)] = a
		}
		if after && result != nil {
			en["result"] = result
			for i, r := range result.Tup {
				en[fmt.Sprintf("result%d", i)] = r
			}
		}
		fr.extraNames = en
		env := fr.specEnv(n, n.heap)
		t := env.evalBool(as.C.E)
		fr.extraNames = save
		if after {
			x.vc.Assume(Implies(n.reach, t))
			x.eng.Note("unchecked assumption about the result of a call to " + as.Callee + " in " + fr.fn.String() + ": " + as.C.Text)
			continue
		}
		cn := as.Callee
		if i := strings.LastIndex(cn, "/"); i >= 0 {
			cn = cn[i+1:]
		}
		ob := x.vc.Oblige("assert", fmt.Sprintf("assert.%s.%d#%d", cn, ai, ord), n.reach, t, x.pos(instr.Pos()), as.C.Text)
		fr.extraNames = en
		ob.Env = fr.specEnv(n, cloneHeap(n.heap)) // for input classes of known findings
		fr.extraNames = save
		x.vc.Assume(Implies(n.reach, t))
	}
}

// callSeqAt numbers the call sites of one key in source order of first execution (stable per instruction).
func (x *Exec) callSeqAt(key string, instr ssa.Instruction) int {
	if x.siteOrd == nil {
		x.siteOrd = map[string]map[ssa.Instruction]int{}
	}
	m := x.siteOrd[key]
	if m == nil {
		m = map[ssa.Instruction]int{}
		x.siteOrd[key] = m
	}
	if o, ok := m[instr]; ok {
		return o
	}
	m[instr] = len(m)
	return m[instr]
}
