package govc

// Evaluation of specification expressions to terms.

import (
	"golang.org/x/tools/go/ssa/ssautil"
	"fmt"
	"go/types"
	"math/big"
	"sort"
	"strconv"
	"strings"

	"golang.org/x/tools/go/ssa"
)

type SV struct {
	T  *Term
	Ty types.Type // Go type when known (needed for field access, len, views)
	P  *Place     // set when the value is an addressable place holding a struct (auto-deref)
	Untyped bool  // integer literal not yet coerced
	Emb     bool  // derived reference standing for an embedded struct value (v.Range): not comparable as a value
}

type SpecEnv struct {
	x      *Exec
	names  func(string) *SV
	rebind func(map[string]*Term) func(string) *SV // names over another heap (old(...) of address-taken / captured variables)
	heap   map[string]*Term
	old    *SpecEnv // environment for old(...)
	bound  map[string]*SV
	pkg    *types.Package
	depth  int
}

func (env *SpecEnv) child() *SpecEnv {
	c := *env
	c.bound = map[string]*SV{}
	for k, v := range env.bound {
		c.bound[k] = v
	}
	return &c
}

func (env *SpecEnv) lookupName(n string) *SV {
	if v, ok := env.bound[n]; ok {
		return v
	}
	if env.names != nil {
		if v := env.names(n); v != nil {
			return v
		}
	}
	return nil
}

type staleErr struct{ msg string }

func (s staleErr) Error() string { return "contract stale: " + s.msg }

func stale(format string, args ...any) { panic(staleErr{fmt.Sprintf(format, args...)}) }

func (env *SpecEnv) evalBool(e *Expr) *Term {
	v := env.eval(e)
	if v.T == nil || v.T.S.K != KBool {
		stale("expression %s is not boolean", e)
	}
	return v.T
}

func (env *SpecEnv) evalInt(e *Expr) *Term {
	v := env.eval(e)
	return env.toInt(v, e)
}

func (env *SpecEnv) toInt(v *SV, e *Expr) *Term {
	if v.T == nil {
		stale("expression %s has no value", e)
	}
	switch v.T.S.K {
	case KInt:
		return v.T
	case KBV:
		return BV2Nat(v.T)
	}
	stale("expression %s is not an integer (sort %s)", e, v.T.S)
	return nil
}

func parseIntLit(s string) *big.Int {
	b := new(big.Int)
	if _, ok := b.SetString(s, 0); !ok {
		stale("bad integer literal %q", s)
	}
	return b
}

func (env *SpecEnv) eval(e *Expr) *SV {
	x := env.x
	switch e.Kind {
	case "int":
		return &SV{T: IntBig(parseIntLit(e.Int)), Untyped: true}
	case "bool":
		return &SV{T: BoolLit(e.Name == "true")}
	case "nil":
		return &SV{T: IntLit(0), Untyped: true}
	case "str":
		return &SV{T: x.strLit(e.Name), Ty: types.Typ[types.String]}
	case "ident":
		if v := env.lookupName(e.Name); v != nil {
			return v
		}
		if e.Name == "MaxBits" {
			return &SV{T: IntBig(new(big.Int).Lsh(big.NewInt(1), 60)), Untyped: true}
		}
		if v := env.global(e.Name); v != nil {
			return v
		}
		stale("unknown name %q", e.Name)
	case "old":
		if env.old == nil {
			stale("old() not available here: %s", e)
		}
		// old(e): the heap of the pre-state; names (parameters, results, bound variables) keep their values
		o := *env
		o.heap = env.old.heap
		if env.rebind != nil {
			// a name that denotes a memory cell (address-taken local, variable captured by reference)
			// reads its pre-state content
			o.names = env.rebind(o.heap)
		}
		o.old = nil
		return o.eval(e.Args[0])
	case "unary":
		a := env.eval(e.Args[0])
		switch e.Name {
		case "!":
			return &SV{T: Not(a.T)}
		case "-":
			if a.T.S.K == KBV {
				return &SV{T: BVNeg(a.T), Ty: a.Ty}
			}
			return &SV{T: Neg(a.T), Ty: a.Ty, Untyped: a.Untyped}
		case "^":
			if a.T.S.K == KBV {
				return &SV{T: BVNot(a.T), Ty: a.Ty}
			}
		}
		stale("unary %s on %s", e.Name, e.Args[0])
	case "cond":
		c := env.evalBool(e.Args[0])
		if c.IsTrue() {
			return env.eval(e.Args[1])
		}
		if c.IsFalse() {
			return env.eval(e.Args[2])
		}
		a, b := env.eval(e.Args[1]), env.eval(e.Args[2])
		a, b = env.unify(a, b, e)
		return &SV{T: Ite(c, a.T, b.T), Ty: firstTy(a, b)}
	case "forall", "exists":
		c := env.child()
		var vars []*Term
		for vi, v := range e.Vars {
			s := SInt
			vt := e.VType
			if vi < len(e.VTypes) {
				vt = e.VTypes[vi]
			}
			if vt != "int" && vt != "" {
				s = specSort(vt)
			}
			bv := Var(v+"?", s)
			vars = append(vars, bv)
			c.bound[v] = &SV{T: bv}
		}
		body := c.evalBool(e.Args[0])
		if t := expandBounded(e.Kind, vars, body); t != nil {
			return &SV{T: t}
		}
		var autoPats [][]*Term
		if e.Kind == "forall" && len(e.Triggers) == 0 {
			vars, body, autoPats = x.absolutise(vars, body)
		}
		var q *Term
		if e.Kind == "forall" {
			q = Forall(vars, body)
		} else {
			q = Exists(vars, body)
		}
		if len(autoPats) > 0 && q.Op == "forall" {
			q.Pats = autoPats
		}
		if len(e.Triggers) > 0 && (q.Op == "forall" || q.Op == "exists") {
			for _, grp := range e.Triggers {
				var ts []*Term
				for _, te := range grp {
					tv := c.eval(te)
					if tv.T != nil {
						ts = append(ts, tv.T)
					}
				}
				if len(ts) > 0 {
					q.Pats = append(q.Pats, ts)
				}
			}
		}
		return &SV{T: q}
	case "binary":
		return env.evalBinary(e)
	case "field":
		// package-qualified global?  (io.EOF)
		if e.Args[0].Kind == "ident" && env.lookupName(e.Args[0].Name) == nil {
			if v := env.global(e.Args[0].Name + "." + e.Name); v != nil {
				return v
			}
		}
		a := env.eval(e.Args[0])
		return env.field(a, e.Name, e)
	case "index":
		a := env.eval(e.Args[0])
		if a.Ty != nil && a.T != nil {
			if vc, pc, ks, vs, ok := env.x.mapComps(a.Ty); ok {
				k := env.eval(e.Args[1])
				if k.T == nil || k.T.S != ks {
					stale("map key sort in %s", e)
				}
				el := a.Ty.Underlying().(*types.Map).Elem()
				val, _ := env.x.mapLookup(env.heap, vc, pc, ks, vs, a.T, k.T, el)
				return &SV{T: val, Ty: el}
			}
		}
		i := env.evalInt(e.Args[1])
		return env.index(a, i, e)
	case "slice":
		a := env.eval(e.Args[0])
		if a.T == nil || a.T.S != SSlice {
			stale("slicing a non-slice in %s", e)
		}
		lo := IntLit(0)
		if e.Args[1] != nil {
			lo = env.evalInt(e.Args[1])
		}
		hi := SLen(a.T)
		if e.Args[2] != nil {
			hi = env.evalInt(e.Args[2])
		}
		return &SV{T: MkSlice(SArr(a.T), Add(SOff(a.T), lo), Sub(hi, lo), Sub(SCap(a.T), lo)), Ty: a.Ty}
	case "call":
		if e.Name == "cellof" && len(e.Args) == 1 {
			// cellof(pkg.Var): the current content of a package-level variable of map, pointer or basic
			// type, read from the heap (a bare pkg.Var denotes the variable as a constant, which is what
			// every function except the package initializer sees)
			name := e.Args[0].String()
			var pkgName, v string
			if i := strings.Index(name, "."); i >= 0 {
				pkgName, v = name[:i], name[i+1:]
			} else {
				v = name
			}
			for _, p := range x.eng.Prog.AllPackages() {
				if pkgName == "" {
					if env.pkg == nil || p.Pkg != env.pkg {
						continue
					}
				} else if p.Pkg.Name() != pkgName {
					continue
				}
				if g, ok := p.Members[v].(*ssa.Global); ok {
					pt := g.Type().(*types.Pointer).Elem()
					srt := x.eng.SortOf(pt)
					t := x.readPlace(env.heap, &Place{Comp: cellComp(srt, isRefType(pt)), Elem: srt, Ref: x.globalRef(g), Ty: pt})
					return &SV{T: t, Ty: pt}
				}
			}
			stale("cellof: unknown package-level variable %s", name)
		}
		if e.Name == "fn" && len(e.Args) == 1 && e.Args[0].Kind == "str" {
			// fn("full SSA name"): the function value of a named function, method or method thunk
			want := e.Args[0].Name
			if allFuncsByName == nil {
				allFuncsByName = map[string]*ssa.Function{}
				for f := range ssautil.AllFunctions(x.eng.Prog) {
					allFuncsByName[f.String()] = f
				}
			}
			// a method thunk exists in the program only while some code takes the method expression;
			// the name is accepted when the method itself exists
			base := strings.TrimSuffix(strings.TrimSuffix(want, "$thunk"), "$bound")
			if f, ok := allFuncsByName[base]; ok {
				return &SV{T: x.eng.UF("fn$"+ident(want), SRef), Ty: f.Type()}
			}
			stale("fn: no function named %s", want)
		}
		if e.Name == "entry" && len(e.Args) == 1 {
			// entry(e): e in the function's entry state - parameters have their entry values (they
			// may be reassigned in the body), the heap is the entry heap; bound variables stay visible
			if env.old == nil {
				return env.eval(e.Args[0])
			}
			o := *env.old
			o.bound = env.bound
			o.old = nil
			return o.eval(e.Args[0])
		}
		return env.call(e)
	}
	stale("cannot evaluate %s", e)
	return nil
}

func firstTy(a, b *SV) types.Type {
	if a.Ty != nil {
		return a.Ty
	}
	return b.Ty
}

// expandBounded expands "forall k :: lo <= k && k < hi ==> body" when lo, hi are literals (small range).
func expandBounded(kind string, vars []*Term, body *Term) *Term {
	if len(vars) != 1 || kind != "forall" {
		return nil
	}
	v := vars[0]
	if body.Op != "=>" {
		return nil
	}
	guard, rest := body.Args[0], body.Args[1]
	var lo, hi *big.Int
	var others []*Term
	conj := []*Term{guard}
	if guard.Op == "and" {
		conj = guard.Args
	}
	for _, c := range conj {
		ok := false
		if len(c.Args) == 2 {
			a, b := c.Args[0], c.Args[1]
			switch {
			case c.Op == "<=" && a.IsIntLit() && b == v:
				lo, ok = a.Val, true
			case c.Op == ">=" && b.IsIntLit() && a == v:
				lo, ok = b.Val, true
			case c.Op == "<" && a == v && b.IsIntLit():
				hi, ok = b.Val, true
			case c.Op == "<=" && a == v && b.IsIntLit():
				hi, ok = new(big.Int).Add(b.Val, big.NewInt(1)), true
			case c.Op == ">" && b == v && a.IsIntLit():
				hi, ok = a.Val, true
			}
		}
		if !ok {
			others = append(others, c)
		}
	}
	if lo == nil || hi == nil {
		return nil
	}
	n := new(big.Int).Sub(hi, lo)
	if n.Sign() <= 0 {
		return True
	}
	if n.Cmp(big.NewInt(130)) > 0 {
		return nil
	}
	var out []*Term
	for k := new(big.Int).Set(lo); k.Cmp(hi) < 0; k = new(big.Int).Add(k, big.NewInt(1)) {
		m := map[string]*Term{v.Name: IntBig(k)}
		out = append(out, Implies(Subst(And(others...), m), Subst(rest, m)))
	}
	return And(out...)
}

func (env *SpecEnv) global(name string) *SV {
	x := env.x
	// name is "pkg.Var" (import name) or "Var" in the current package
	var pkgName, v string
	if i := strings.Index(name, "."); i >= 0 {
		pkgName, v = name[:i], name[i+1:]
	} else {
		v = name
	}
	for _, p := range x.eng.Prog.AllPackages() {
		if pkgName == "" {
			if env.pkg == nil || p.Pkg != env.pkg {
				continue
			}
		} else if p.Pkg.Name() != pkgName {
			continue
		}
		if g, ok := p.Members[v].(*ssa.Global); ok {
			pt := g.Type().(*types.Pointer).Elem()
			return &SV{T: x.loadGlobal(env.heap, g), Ty: pt}
		}
		if c, ok := p.Members[v].(*ssa.NamedConst); ok {
			cv := x.constVal(c.Value)
			return &SV{T: cv.T, Ty: c.Type()}
		}
	}
	return nil
}

func (env *SpecEnv) unify(a, b *SV, e *Expr) (*SV, *SV) {
	if a.T == nil || b.T == nil {
		stale("operand without value in %s", e)
	}
	if SameSort(a.T.S, b.T.S) {
		return a, b
	}
	// a struct stored inside an object (x.f with f of struct type) compared with a struct value: load it
	loadIf := func(p, q *SV) *SV {
		if p.Ty != nil && q.T.S.K == KNamed && len(q.T.S.Fields) > 0 && p.T.S.K == KInt {
			if pt, isPtr := derefType(p.Ty); isPtr {
				if _, isStruct := pt.Underlying().(*types.Struct); isStruct {
					return &SV{T: (&Frame{x: env.x}).loadObject(env.heap, p.T, pt), Ty: pt}
				}
			}
		}
		return p
	}
	a, b = loadIf(a, b), loadIf(b, a)
	if SameSort(a.T.S, b.T.S) {
		return a, b
	}
	// literal coercion / BV vs Int
	if a.T.S.K == KBV && b.T.S.K == KInt {
		if b.T.IsIntLit() {
			return a, &SV{T: BVBig(b.T.Val, a.T.S.W), Ty: a.Ty}
		}
		return &SV{T: BV2Nat(a.T)}, b
	}
	if b.T.S.K == KBV && a.T.S.K == KInt {
		if a.T.IsIntLit() {
			return &SV{T: BVBig(a.T.Val, b.T.S.W), Ty: b.Ty}, b
		}
		return a, &SV{T: BV2Nat(b.T)}
	}
	if a.T.S.K == KBV && b.T.S.K == KBV {
		w := a.T.S.W
		if b.T.S.W > w {
			w = b.T.S.W
		}
		return &SV{T: BVResize(a.T, w)}, &SV{T: BVResize(b.T, w)}
	}
	stale("sort mismatch in %s: %s vs %s", e, a.T.S, b.T.S)
	return nil, nil
}

func (env *SpecEnv) evalBinary(e *Expr) *SV {
	op := e.Name
	switch op {
	case "&&":
		return &SV{T: And(env.evalBool(e.Args[0]), env.evalBool(e.Args[1]))}
	case "||":
		return &SV{T: Or(env.evalBool(e.Args[0]), env.evalBool(e.Args[1]))}
	case "==>":
		a := env.evalBool(e.Args[0])
		if a.IsFalse() {
			return &SV{T: True}
		}
		return &SV{T: Implies(a, env.evalBool(e.Args[1]))}
	case "<==>":
		return &SV{T: Eq(env.evalBool(e.Args[0]), env.evalBool(e.Args[1]))}
	}
	a, b := env.eval(e.Args[0]), env.eval(e.Args[1])
	if op == "<<" || op == ">>" {
		// shift: left operand decides the sort; count is an integer
		cnt := env.toInt(b, e.Args[1])
		if a.T.S.K == KBV {
			sop := "bvshl"
			if op == ">>" {
				sop = "bvlshr"
			}
			return &SV{T: ShiftByInt(sop, a.T, cnt), Ty: a.Ty}
		}
		if cnt.IsIntLit() {
			p := IntBig(new(big.Int).Lsh(big.NewInt(1), uint(cnt.Val.Uint64())))
			if op == "<<" {
				return &SV{T: Mul(a.T, p), Ty: a.Ty, Untyped: a.Untyped}
			}
			return &SV{T: EDiv(a.T, p), Ty: a.Ty, Untyped: a.Untyped}
		}
		// symbolic power of two
		p := env.x.pow2(cnt)
		if op == "<<" {
			return &SV{T: Mul(a.T, p), Ty: a.Ty}
		}
		return &SV{T: EDiv(a.T, p), Ty: a.Ty}
	}
	if (op == "==" || op == "!=") && a.Emb && b.Emb {
		stale("comparison of a struct stored inside a heap object in %s: compare its fields (the comparison would only compare identities)", e)
	}
	a, b = env.unify(a, b, e)
	ty := firstTy(a, b)
	unt := a.Untyped && b.Untyped
	if a.T.S.K == KBV {
		switch op {
		case "==":
			return &SV{T: Eq(a.T, b.T)}
		case "!=":
			return &SV{T: Neq(a.T, b.T)}
		case "<":
			return &SV{T: BVCmp("bvult", a.T, b.T)}
		case "<=":
			return &SV{T: BVCmp("bvule", a.T, b.T)}
		case ">":
			return &SV{T: BVCmp("bvugt", a.T, b.T)}
		case ">=":
			return &SV{T: BVCmp("bvuge", a.T, b.T)}
		case "+":
			return &SV{T: BVBin("bvadd", a.T, b.T), Ty: ty}
		case "-":
			return &SV{T: BVBin("bvsub", a.T, b.T), Ty: ty}
		case "*":
			return &SV{T: BVBin("bvmul", a.T, b.T), Ty: ty}
		case "&":
			return &SV{T: BVBin("bvand", a.T, b.T), Ty: ty}
		case "|":
			return &SV{T: BVBin("bvor", a.T, b.T), Ty: ty}
		case "^":
			return &SV{T: BVBin("bvxor", a.T, b.T), Ty: ty}
		case "/":
			return &SV{T: BVBin("bvudiv", a.T, b.T), Ty: ty}
		case "%":
			return &SV{T: BVBin("bvurem", a.T, b.T), Ty: ty}
		}
		stale("operator %s on bit-vectors in %s", op, e)
	}
	switch op {
	case "==":
		return &SV{T: Eq(a.T, b.T)}
	case "!=":
		return &SV{T: Neq(a.T, b.T)}
	}
	if a.T.S == SStr && b.T.S == SStr && op == "+" {
		return &SV{T: env.x.strCat(a.T, b.T), Ty: ty}
	}
	if a.T.S.K != KInt {
		stale("operator %s on sort %s in %s", op, a.T.S, e)
	}
	switch op {
	case "<", "<=", ">", ">=":
		return &SV{T: Cmp(op, a.T, b.T)}
	case "+":
		return &SV{T: Add(a.T, b.T), Ty: ty, Untyped: unt}
	case "-":
		return &SV{T: Sub(a.T, b.T), Ty: ty, Untyped: unt}
	case "*":
		return &SV{T: Mul(a.T, b.T), Ty: ty, Untyped: unt}
	case "/":
		// spec division is floor division (Euclidean for positive divisors)
		return &SV{T: EDiv(a.T, b.T), Ty: ty, Untyped: unt}
	case "%":
		return &SV{T: EMod(a.T, b.T), Ty: ty, Untyped: unt}
	}
	stale("operator %s on integers in %s", op, e)
	return nil
}

func (x *Exec) pow2(n *Term) *Term {
	if n.IsIntLit() {
		return IntBig(new(big.Int).Lsh(big.NewInt(1), uint(n.Val.Uint64())))
	}
	x.eng.DeclareUF("pow2", SInt, SInt)
	return App("pow2", SInt, n)
}

func derefType(t types.Type) (types.Type, bool) {
	if p, ok := t.Underlying().(*types.Pointer); ok {
		return p.Elem(), true
	}
	return t, false
}

func (env *SpecEnv) field(a *SV, name string, e *Expr) *SV {
	x := env.x
	if a.Ty == nil {
		stale("field %s of a value without Go type in %s", name, e)
	}
	bt, isPtr := derefType(a.Ty)
	st, ok := bt.Underlying().(*types.Struct)
	if !ok {
		stale("field %s of non-struct %s in %s", name, a.Ty, e)
	}
	idx := -1
	for i := 0; i < st.NumFields(); i++ {
		if st.Field(i).Name() == name {
			idx = i
		}
	}
	if idx < 0 {
		// promoted field through embedded structs
		for i := 0; i < st.NumFields(); i++ {
			f := st.Field(i)
			if f.Embedded() {
				if _, ok := f.Type().Underlying().(*types.Struct); ok {
					inner := env.field(a, f.Name(), e)
					if r := env.tryField(inner, name, e); r != nil {
						return r
					}
				}
			}
		}
		stale("no field %s in %s (%s)", name, bt, e)
	}
	ft := st.Field(idx).Type()
	if isPtr {
		// heap read
		if _, isStruct := ft.Underlying().(*types.Struct); isStruct {
			// embedded struct object: derived reference
			return &SV{T: x.embRef(bt, name, a.T), Ty: types.NewPointer(ft), Emb: true}
		}
		p := x.fieldPlace(bt, idx, a.T)
		return &SV{T: x.readPlace(env.heap, p), Ty: ft}
	}
	if a.P != nil {
		p := *a.P
		p.Sub = append(append([]int{}, p.Sub...), idx)
		p.Ty = ft
		return &SV{T: x.readPlace(env.heap, &p), Ty: ft, P: &p}
	}
	return &SV{T: StructSel(a.T, idx), Ty: ft}
}

func (env *SpecEnv) tryField(a *SV, name string, e *Expr) (r *SV) {
	defer func() {
		if rec := recover(); rec != nil {
			if _, ok := rec.(staleErr); ok {
				r = nil
				return
			}
			panic(rec)
		}
	}()
	return env.field(a, name, e)
}

func (env *SpecEnv) index(a *SV, i *Term, e *Expr) *SV {
	x := env.x
	if a.Ty == nil {
		stale("index of untyped value in %s", e)
	}
	switch u := a.Ty.Underlying().(type) {
	case *types.Slice:
		es := x.eng.SortOf(u.Elem())
		p := &Place{Comp: memComp(es), Elem: es, Ref: SArr(a.T), Idx: ElemIdx(SOff(a.T), i, es), Ty: u.Elem()}
		return &SV{T: x.readPlace(env.heap, p), Ty: u.Elem(), P: p}
	case *types.Pointer:
		if arr, ok := u.Elem().Underlying().(*types.Array); ok {
			es := x.eng.SortOf(arr.Elem())
			p := &Place{Comp: memComp(es), Elem: es, Ref: a.T, Idx: i, Ty: arr.Elem()}
			return &SV{T: x.readPlace(env.heap, p), Ty: arr.Elem(), P: p}
		}
	case *types.Array:
		return &SV{T: Select(a.T, i), Ty: u.Elem()}
	case *types.Basic:
		if a.T != nil && a.T.S == SStr {
			x.eng.DeclareUF("strAt", SBV(8), SStr, SInt)
			return &SV{T: App("strAt", SBV(8), a.T, i), Ty: types.Typ[types.Uint8]}
		}
	}
	stale("cannot index %s in %s", a.Ty, e)
	return nil
}

// call: builtins, views, spec functions, uninterpreted functions
func (env *SpecEnv) call(e *Expr) *SV {
	x := env.x
	argN := func(n int) {
		if len(e.Args) != n {
			stale("%s expects %d arguments in %s", e.Name, n, e)
		}
	}
	switch e.Name {
	case "len", "cap":
		argN(1)
		a := env.eval(e.Args[0])
		if a.T.S == SSlice {
			if e.Name == "len" {
				return &SV{T: SLen(a.T), Ty: types.Typ[types.Int]}
			}
			return &SV{T: SCap(a.T), Ty: types.Typ[types.Int]}
		}
		if a.T.S == SStr {
			return &SV{T: x.strLen(a.T), Ty: types.Typ[types.Int]}
		}
		if a.Ty != nil {
			if p, ok := a.Ty.Underlying().(*types.Pointer); ok {
				if arr, ok := p.Elem().Underlying().(*types.Array); ok {
					return &SV{T: IntLit(arr.Len())}
				}
			}
		}
		stale("len of %s", e.Args[0])
	case "int":
		argN(1)
		a := env.eval(e.Args[0])
		return &SV{T: env.toInt(a, e)}
	case "sint":
		// signed value of a bit-vector
		argN(1)
		a := env.eval(e.Args[0])
		if a.T.S.K != KBV {
			return &SV{T: env.toInt(a, e)}
		}
		w := a.T.S.W
		n := BV2Nat(a.T)
		return &SV{T: Ite(Lt(n, IntBig(new(big.Int).Lsh(big.NewInt(1), uint(w-1)))), n, Sub(n, IntBig(new(big.Int).Lsh(big.NewInt(1), uint(w)))))}
	case "u8", "u16", "u32", "u64":
		argN(1)
		w, _ := strconv.Atoi(e.Name[1:])
		a := env.eval(e.Args[0])
		if a.T.S.K == KBV {
			return &SV{T: BVResize(a.T, w)}
		}
		return &SV{T: Int2BV(a.T, w)}
	case "min", "max":
		argN(2)
		a, b := env.evalInt(e.Args[0]), env.evalInt(e.Args[1])
		if e.Name == "min" {
			return &SV{T: Ite(Le(a, b), a, b)}
		}
		return &SV{T: Ite(Ge(a, b), a, b)}
	case "bitAt":
		argN(2)
		a := env.eval(e.Args[0])
		j := env.evalInt(e.Args[1])
		return &SV{T: x.bitAt(env.heap, a.T, j)}
	case "byteAt":
		argN(2)
		a := env.eval(e.Args[0])
		j := env.evalInt(e.Args[1])
		m := x.comp(env.heap, memComp(SBV(8)), memSort(SBV(8)))
		return &SV{T: Select(Select(m, SArr(a.T)), Add(SOff(a.T), j)), Ty: types.Typ[types.Uint8]}
	case "ubit":
		argN(3)
		v := env.eval(e.Args[0])
		n := env.evalInt(e.Args[1])
		k := env.evalInt(e.Args[2])
		return &SV{T: x.ubit(v.T, n, k)}
	case "rowBit":
		argN(2)
		w := env.eval(e.Args[0])
		return &SV{T: x.rowBit(w.T, env.evalInt(e.Args[1]))}
	case "rowByte":
		argN(2)
		w := env.eval(e.Args[0])
		return &SV{T: Select(w.T, env.evalInt(e.Args[1])), Ty: types.Typ[types.Uint8]}
	case "byteOf":
		// byteOf(v, j): byte j of v, j = 0 is the least significant byte
		argN(2)
		v := env.eval(e.Args[0])
		j := env.evalInt(e.Args[1])
		w := v.T.S.W
		if j.IsIntLit() {
			jj := int(j.Val.Int64())
			if jj < 0 || jj*8 >= w {
				return &SV{T: BVLit(0, 8), Ty: types.Typ[types.Uint8]}
			}
			return &SV{T: Extract(v.T, jj*8+7, jj*8), Ty: types.Typ[types.Uint8]}
		}
		r := BVLit(0, 8)
		for jj := w/8 - 1; jj >= 0; jj-- {
			r = Ite(App("=", SBool, j, IntLit(int64(jj))), Extract(v.T, jj*8+7, jj*8), r)
		}
		return &SV{T: r, Ty: types.Typ[types.Uint8]}
	case "bitOfByte":
		argN(2)
		v := env.eval(e.Args[0])
		k := env.evalInt(e.Args[1])
		return &SV{T: x.bitOfByte(v.T, k)}
	case "fresh":
		argN(1)
		a := env.eval(e.Args[0])
		if a.T.S == SSlice {
			return &SV{T: Gt(SArr(a.T), x.top0)}
		}
		return &SV{T: Gt(a.T, x.top0)}
	case "existing":
		argN(1)
		a := env.eval(e.Args[0])
		if a.T.S == SSlice {
			return &SV{T: Le(SArr(a.T), x.top0)}
		}
		return &SV{T: Le(a.T, x.top0)}
	case "disjoint":
		argN(2)
		a, b := env.eval(e.Args[0]), env.eval(e.Args[1])
		// different backing arrays (a nil slice is disjoint from everything)
		return &SV{T: Or(Neq(SArr(a.T), SArr(b.T)), Eq(SArr(a.T), IntLit(0)))}
	case "sameslice":
		argN(2)
		a, b := env.eval(e.Args[0]), env.eval(e.Args[1])
		return &SV{T: And(Eq(SArr(a.T), SArr(b.T)), Eq(SOff(a.T), SOff(b.T)), Eq(SLen(a.T), SLen(b.T)))}
	case "deref":
		// *p for a pointer to a non-struct value
		argN(1)
		a := env.eval(e.Args[0])
		if a.Ty == nil {
			stale("deref of untyped value in %s", e)
		}
		pt, isPtr := derefType(a.Ty)
		if !isPtr {
			stale("deref of non-pointer in %s", e)
		}
		srt := x.eng.SortOf(pt)
		pl := &Place{Comp: cellComp(srt, isRefType(pt)), Elem: srt, Ref: a.T, Ty: pt}
		return &SV{T: x.readPlace(env.heap, pl), Ty: pt}
	case "arr":
		argN(1)
		a := env.eval(e.Args[0])
		return &SV{T: SArr(a.T)}
	case "valid":
		argN(1)
		a := env.eval(e.Args[0])
		return &SV{T: x.validOf(env, a, e)}
	case "implements":
		// implements(x, "pkg/path.Iface"): the dynamic type of interface value x implements the interface
		argN(2)
		a := env.eval(e.Args[0])
		it := x.eng.typeByString(e.Args[1].Name)
		if it == nil {
			stale("implements: unknown interface %s in %s", e.Args[1].Name, e)
		}
		x.eng.DeclareUF("implements", SBool, SInt, SInt)
		return &SV{T: And(Neq(a.T, IntLit(0)), App("implements", SBool, x.dynType(a.T), x.typeIDOf(it)))}
	case "present":
		// present(m, k): key k is in map m (maps with basic-typed keys)
		argN(2)
		a := env.eval(e.Args[0])
		if a.Ty == nil || a.T == nil {
			stale("present: not a map in %s", e)
		}
		vc, pc, ks, vs, ok := x.mapComps(a.Ty)
		if !ok {
			stale("present: unsupported map type %s in %s", a.Ty, e)
		}
		k := env.eval(e.Args[1])
		if k.T == nil || k.T.S != ks {
			stale("present: key sort in %s", e)
		}
		_, pr := x.mapLookup(env.heap, vc, pc, ks, vs, a.T, k.T, a.Ty.Underlying().(*types.Map).Elem())
		return &SV{T: pr}
	case "unbox":
		// unbox(x, T): the value of Go type T (a type of the current package, or int/int64/bool) held by interface value x
		argN(2)
		a := env.eval(e.Args[0])
		tn := e.Args[1].Name
		var ty types.Type
		if obj, ok := types.Universe.Lookup(tn).(*types.TypeName); ok {
			ty = obj.Type()
		}
		if ty == nil && e.Args[1].Kind == "str" {
			ty = x.eng.typeByString(tn)
		}
		switch {
		case ty != nil:
		default:
			ptr := strings.HasPrefix(tn, "P_")
			base := strings.TrimPrefix(tn, "P_")
			if env.pkg != nil {
				if obj := env.pkg.Scope().Lookup(base); obj != nil {
					ty = obj.Type()
					if ptr {
						ty = types.NewPointer(ty)
					}
				}
			}
		}
		if ty == nil {
			stale("unbox: unknown type %s in %s", tn, e)
		}
		srt := x.eng.SortOf(ty)
		if srt.K == KInt && isRefType(ty) {
			return &SV{T: a.T, Ty: ty}
		}
		bn := "box$" + srt.Short()
		x.eng.DeclareUF(bn, srt, SInt)
		return &SV{T: App(bn, srt, a.T), Ty: ty}
	case "typeis":
		// typeis(x, "pkg.T") / "*pkg.T"
		argN(2)
		a := env.eval(e.Args[0])
		tn := e.Args[1].Name
		if e.Args[1].Kind == "str" || strings.Contains(tn, ".") || strings.Contains(tn, "/") {
			if t := x.eng.typeByString(tn); t != nil && t.String() == tn {
				return &SV{T: And(Neq(a.T, IntLit(0)), Eq(x.dynType(a.T), x.typeIDOf(t)))}
			}
			return &SV{T: And(Neq(a.T, IntLit(0)), Eq(x.dynType(a.T), x.typeID(tn)))}
		}
		var ty types.Type
		if obj, ok := types.Universe.Lookup(tn).(*types.TypeName); ok {
			ty = obj.Type()
		}
		switch {
		case ty != nil:
		default:
			ptr := strings.HasPrefix(tn, "P_")
			base := strings.TrimPrefix(tn, "P_")
			if env.pkg != nil {
				if obj := env.pkg.Scope().Lookup(base); obj != nil {
					ty = obj.Type()
					if ptr {
						ty = types.NewPointer(ty)
					}
				}
			}
		}
		if ty == nil {
			stale("typeis: unknown type %s in %s", tn, e)
		}
		return &SV{T: And(Neq(a.T, IntLit(0)), Eq(x.dynType(a.T), x.typeIDOf(ty)))}
	case "isEOF":
		argN(1)
		a := env.eval(e.Args[0])
		return &SV{T: x.errIs(a.T, env.global("io.EOF").T)}
	case "errIs":
		argN(2)
		a, b := env.eval(e.Args[0]), env.eval(e.Args[1])
		return &SV{T: x.errIs(a.T, b.T)}
	}
	// views on the static type of the first argument
	if len(e.Args) >= 1 {
		if r := env.viewCall(e); r != nil {
			return r
		}
	}
	if sf, ok := x.eng.SpecFuncs[e.Name]; ok {
		if len(sf.Params) != len(e.Args) {
			stale("%s expects %d arguments in %s", e.Name, len(sf.Params), e)
		}
		if sf.Body == nil {
			var args []*Term
			var sorts []*Sort
			for i, a := range e.Args {
				v := env.eval(a)
				s := specSort(sf.PTypes[i])
				t := v.T
				if s.K == KInt && t.S.K == KBV {
					t = BV2Nat(t)
				}
				if s.K == KBV && t.S.K == KInt && t.IsIntLit() {
					t = BVBig(t.Val, s.W)
				}
				if !SameSort(t.S, s) {
					stale("argument %d of %s has sort %s, want %s", i, e.Name, t.S, s)
				}
				args = append(args, t)
				sorts = append(sorts, s)
			}
			x.eng.DeclareUF(sf.Name, specSort(sf.RType), sorts...)
			return &SV{T: App(sf.Name, specSort(sf.RType), args...)}
		}
		if env.depth > 20 {
			stale("spec function recursion too deep at %s", e)
		}
		c := env.child()
		c.depth = env.depth + 1
		// macro expansion; body sees only its parameters (plus globals / heap)
		c.names = nil
		c.bound = map[string]*SV{}
		for i, a := range e.Args {
			c.bound[sf.Params[i]] = env.eval(a)
		}
		return c.eval(sf.Body.E)
	}
	stale("unknown function %s in %s", e.Name, e)
	return nil
}

func specSort(s string) *Sort {
	switch s {
	case "int", "ref":
		return SInt
	case "bool":
		return SBool
	case "u8":
		return SBV(8)
	case "u16":
		return SBV(16)
	case "u32":
		return SBV(32)
	case "u64":
		return SBV(64)
	case "slice":
		return SSlice
	case "row":
		return SArray(SInt, SBV(8))
	case "str":
		return SStr
	}
	stale("unknown spec sort %q", s)
	return nil
}

// ---------- bit helpers ----------

func (x *Exec) bitOfByte(b *Term, k *Term) *Term {
	if x.opaque["bitOfByte"] {
		x.eng.DeclareUF("bitOfByteU", SBool, SBV(8), SInt)
		return App("bitOfByteU", SBool, b, k)
	}
	// bit k of byte b counted from the most significant bit (k = 0 is 0x80)
	if k.IsIntLit() {
		kk := int(k.Val.Int64())
		if kk < 0 || kk > 7 {
			return False
		}
		return Eq(Extract(b, 7-kk, 7-kk), BVLit(1, 1))
	}
	r := False
	for kk := 7; kk >= 0; kk-- {
		r = Ite(App("=", SBool, k, IntLit(int64(kk))), Eq(Extract(b, 7-kk, 7-kk), BVLit(1, 1)), r)
	}
	return r
}

func (x *Exec) bitAt(heap map[string]*Term, s *Term, j *Term) *Term {
	m := x.comp(heap, memComp(SBV(8)), memSort(SBV(8)))
	if x.opaque["bitAt"] {
		row := Select(m, SArr(s))
		// opaque: bit at absolute position 8*off+j of the array row.  Quantified clauses are
		// re-parametrised over the absolute position (see absolutise), so that the trigger
		// rowBitU(row, B) has a plain bound variable and matches through sub-slicing.
		return x.rowBit(row, Add(Mul(IntLit(8), SOff(s)), j))
	}
	if x.opaque["bitOfByte"] {
		// semi-opaque: which byte is read stays visible (so byte-level copies carry bits along),
		// how a bit is taken out of the byte is uninterpreted
		b := Select(Select(m, SArr(s)), Add(SOff(s), EDiv(j, IntLit(8))))
		return x.bitOfByte(b, EMod(j, IntLit(8)))
	}
	b := Select(Select(m, SArr(s)), Add(SOff(s), EDiv(j, IntLit(8))))
	return x.bitOfByte(b, EMod(j, IntLit(8)))
}

// ubit(v, n, k): bit k (from the most significant end of an n-bit field) of v = bit n-1-k of v
func (x *Exec) ubit(v *Term, n, k *Term) *Term {
	w := v.S.W
	if v.IsBVLit() && v.Val.Sign() == 0 {
		return False
	}
	if x.opaque["ubit"] {
		x.eng.DeclareUF(fmt.Sprintf("ubitU%d", w), SBool, v.S, SInt, SInt)
		return App(fmt.Sprintf("ubitU%d", w), SBool, v, n, k)
	}
	idx := Sub(Sub(n, IntLit(1)), k)
	if idx.IsIntLit() {
		i := int(idx.Val.Int64())
		if i < 0 || i >= w {
			return False
		}
		return Eq(Extract(v, i, i), BVLit(1, 1))
	}
	r := False
	for i := w - 1; i >= 0; i-- {
		r = Ite(App("=", SBool, idx, IntLit(int64(i))), Eq(Extract(v, i, i), BVLit(1, 1)), r)
	}
	return r
}

func (x *Exec) rowBit(row, b *Term) *Term {
	if x.opaque["bitAt"] {
		x.eng.DeclareUF("rowBitU", SBool, row.S, SInt)
		return App("rowBitU", SBool, row, b)
	}
	by := Select(row, EDiv(b, IntLit(8)))
	return x.bitOfByte(by, EMod(b, IntLit(8)))
}

// absolutise: forall v :: body  where body mentions rowBitU(row, a + v) (row independent of v):
// change variables to B = a + v, so the uninterpreted symbol's argument is the bound variable itself.
func (x *Exec) absolutise(vars []*Term, body *Term) ([]*Term, *Term, [][]*Term) {
	if !x.opaque["bitAt"] {
		return vars, body, nil
	}
	for vi, v := range vars {
		if v.S.K != KInt {
			continue
		}
		// find a rowBitU occurrence whose position is linear in v with coefficient 1
		var found *Term
		var rest *Term
		var walk func(t *Term)
		seen := map[*Term]bool{}
		mentions := func(t *Term) bool {
			fv := map[string]*Sort{}
			FreeVars(t, fv, map[*Term]bool{})
			_, ok := fv[v.Name]
			return ok
		}
		walk = func(t *Term) {
			if found != nil || seen[t] {
				return
			}
			seen[t] = true
			if t.Op == "rowBitU" && !mentions(t.Args[0]) {
				l := linOf(t.Args[1])
				for i, a := range l.atoms {
					if a.Op == "var" && a.Name == v.Name && l.coefs[i].Cmp(big.NewInt(1)) == 0 {
						// rest = position - v
						r := &linForm{c: new(big.Int).Set(l.c)}
						okRest := true
						for j, b := range l.atoms {
							if j != i {
								if mentions(b) {
									okRest = false
								}
								r.add(b, l.coefs[j])
							}
						}
						if okRest {
							found, rest = t, r.term()
						}
					}
				}
			}
			for _, a := range t.Args {
				walk(a)
			}
		}
		walk(body)
		if found == nil {
			continue
		}
		if rest.IsIntLit() && rest.Val.Sign() == 0 {
			// already absolute
			return vars, body, [][]*Term{{App("rowBitU", SBool, found.Args[0], v)}}
		}
		B := Var(strings.TrimSuffix(v.Name, "?")+"@B?", SInt)
		nb := Subst(body, map[string]*Term{v.Name: Sub(B, rest)})
		nv := append([]*Term{}, vars...)
		nv[vi] = B
		return nv, nb, [][]*Term{{App("rowBitU", SBool, found.Args[0], B)}}
	}
	return vars, body, nil
}

func (x *Exec) strLen(s *Term) *Term {
	x.eng.DeclareUF("strlen", SInt, SStr)
	return App("strlen", SInt, s)
}

func (x *Exec) dynType(r *Term) *Term {
	x.eng.DeclareUF("dyntype", SInt, SInt)
	return App("dyntype", SInt, r)
}

var typeIDs = map[string]int{}
var typeOfID = map[string]types.Type{}

func (x *Exec) typeID(name string) *Term {
	if _, ok := typeIDs[name]; !ok {
		typeIDs[name] = len(typeIDs) + 1
	}
	return IntLit(int64(typeIDs[name]))
}

// typeIDOf registers the Go type behind a dynamic type id (used for "does not implement error" facts).
func (x *Exec) typeIDOf(t types.Type) *Term {
	name := t.String()
	typeOfID[name] = t
	return x.typeID(name)
}

var errorIface = types.Universe.Lookup("error").Type().Underlying().(*types.Interface)

// nonErrorTypeIDs: ids of registered concrete types that do not implement error.
// implementsFacts: for the given concrete type ids and interface ids (as they occur in a query),
// whether the Go type implements the interface (from go/types; sound ground facts).
func implementsFacts(conc, ifaces map[int64]bool) []string {
	byID := map[int64]types.Type{}
	for name, t := range typeOfID {
		byID[int64(typeIDs[name])] = t
	}
	var out []string
	var cs, is []int64
	for c := range conc {
		cs = append(cs, c)
	}
	for i := range ifaces {
		is = append(is, i)
	}
	sort.Slice(cs, func(a, b int) bool { return cs[a] < cs[b] })
	sort.Slice(is, func(a, b int) bool { return is[a] < is[b] })
	for _, c := range cs {
		ct := byID[c]
		if ct == nil {
			continue
		}
		if _, isI := ct.Underlying().(*types.Interface); isI {
			continue
		}
		for _, i := range is {
			it := byID[i]
			if it == nil {
				continue
			}
			iface, ok := it.Underlying().(*types.Interface)
			if !ok {
				continue
			}
			if types.Implements(ct, iface) {
				out = append(out, fmt.Sprintf("(assert (implements %d %d))", c, i))
			} else {
				out = append(out, fmt.Sprintf("(assert (not (implements %d %d)))", c, i))
			}
		}
	}
	return out
}

func nonErrorTypeIDs() []int {
	var out []int
	for name, t := range typeOfID {
		if _, isI := t.Underlying().(*types.Interface); isI {
			continue
		}
		if !types.Implements(t, errorIface) {
			out = append(out, typeIDs[name])
		}
	}
	sort.Ints(out)
	return out
}

func (x *Exec) errIs(e, target *Term) *Term {
	x.eng.DeclareUF("errIs", SBool, SInt, SInt)
	return App("errIs", SBool, e, target)
}

var allFuncsByName map[string]*ssa.Function

// ---------- views and validity ----------

func (x *Exec) typeSpecOf(t types.Type) (*TypeSpec, types.Type) {
	bt, _ := derefType(t)
	if n, ok := bt.(*types.Named); ok {
		if ts, ok := x.eng.Types[typeKey(n)]; ok {
			return ts, bt
		}
	}
	return nil, bt
}

func (env *SpecEnv) viewCall(e *Expr) *SV {
	x := env.x
	// is e.Name a view name anywhere?
	isView := false
	for _, ts := range x.eng.Types {
		for _, v := range ts.Views {
			if v.Fn == e.Name {
				isView = true
			}
		}
	}
	if !isView && !abstractViews[e.Name] {
		return nil
	}
	a := env.eval(e.Args[0])
	if a.Ty != nil {
		if ts, _ := x.typeSpecOf(a.Ty); ts != nil {
			if _, isPtr := derefType(a.Ty); isPtr {
				for _, v := range ts.Views {
					if v.Fn == e.Name && len(v.Params) == len(e.Args) {
						c := env.child()
						c.names = nil
						c.bound = map[string]*SV{}
						c.bound[v.Params[0]] = a
						for i := 1; i < len(e.Args); i++ {
							c.bound[v.Params[i]] = env.eval(e.Args[i])
						}
						return c.eval(v.Body.E)
					}
				}
			}
		}
	}
	// abstract
	return x.abstractView(env, e.Name, a, e)
}

// abstract views: uninterpreted functions of the reference; "cursor" is a ghost heap field.
// ghostFields: state-dependent abstract values attached to a reference (ghost heap fields)
var ghostFields = map[string]bool{"cursor": true, "fpos": true, "bigVal": true, "seq": true}

var abstractViews = map[string]bool{"seq": true, "bigVal": true, "RLen": true, "RBit": true, "cursor": true, "FLen": true, "FByte": true, "FBit": true, "fpos": true}

func (x *Exec) abstractView(env *SpecEnv, name string, a *SV, e *Expr) *SV {
	switch name {
	case "cursor", "fpos", "bigVal", "seq":
		comp := "G$" + name
		m := x.comp(env.heap, comp, SArray(SInt, SInt))
		return &SV{T: Select(m, a.T)}
	case "RLen", "FLen":
		x.eng.DeclareUF(name, SInt, SInt)
		return &SV{T: App(name, SInt, a.T)}
	case "RBit":
		if len(e.Args) != 2 {
			stale("RBit(r, i) in %s", e)
		}
		x.eng.DeclareUF(name, SBool, SInt, SInt)
		return &SV{T: App(name, SBool, a.T, env.evalInt(e.Args[1]))}
	case "FBit":
		x.eng.DeclareUF(name, SBool, SInt, SInt)
		return &SV{T: App(name, SBool, a.T, env.evalInt(e.Args[1]))}
	case "FByte":
		x.eng.DeclareUF(name, SBV(8), SInt, SInt)
		return &SV{T: App(name, SBV(8), a.T, env.evalInt(e.Args[1])), Ty: types.Typ[types.Uint8]}
	}
	// generic abstract view: uninterpreted Int-valued
	var args []*Term
	var sorts []*Sort
	args = append(args, a.T)
	sorts = append(sorts, a.T.S)
	for _, ar := range e.Args[1:] {
		t := env.evalInt(ar)
		args = append(args, t)
		sorts = append(sorts, SInt)
	}
	x.eng.DeclareUF(name, SInt, sorts...)
	return &SV{T: App(name, SInt, args...)}
}

func (x *Exec) validOf(env *SpecEnv, a *SV, e *Expr) *Term {
	if a.Ty != nil {
		if ts, _ := x.typeSpecOf(a.Ty); ts != nil {
			if _, isPtr := derefType(a.Ty); !isPtr {
				// struct value with a type spec: its invariants
				var cs []*Term
				for _, inv := range ts.Invariants {
					c := env.child()
					c.names = nil
					c.bound = map[string]*SV{"this": a}
					cs = append(cs, c.evalBool(inv.E))
				}
				return And(cs...)
			}
			if _, isPtr := derefType(a.Ty); isPtr {
				var cs []*Term
				cs = append(cs, Neq(a.T, IntLit(0)))
				for _, inv := range ts.Invariants {
					c := env.child()
					c.names = nil
					c.bound = map[string]*SV{"this": a}
					cs = append(cs, c.evalBool(inv.E))
				}
				return And(cs...)
			}
		}
	}
	x.eng.DeclareUF("Valid", SBool, SInt)
	return And(Neq(a.T, IntLit(0)), App("Valid", SBool, a.T))
}

// typeByString resolves "pkg/path.Name" or "*pkg/path.Name" among the loaded packages.
func (e *Engine) typeByString(name string) types.Type {
	if name == "[]any" {
		return types.NewSlice(types.Universe.Lookup("any").Type())
	}
	ptr := strings.HasPrefix(name, "*")
	name = strings.TrimPrefix(name, "*")
	i := strings.LastIndex(name, ".")
	if i < 0 {
		return nil
	}
	path, tn := name[:i], name[i+1:]
	for _, p := range e.Prog.AllPackages() {
		if p.Pkg.Path() != path {
			continue
		}
		if obj, ok := p.Pkg.Scope().Lookup(tn).(*types.TypeName); ok {
			if ptr {
				return types.NewPointer(obj.Type())
			}
			return obj.Type()
		}
	}
	return nil
}
