package govc

// `govc check --property Cxx --tier quick|thorough`: the registered check.

import (
	"regexp"
	"encoding/json"
	"flag"
	"fmt"
	"os"
	"path/filepath"
	"sort"
	"strconv"
	"strings"
	"time"
)

type KnownFinding struct {
	Property   string `json:"property"`
	Function   string `json:"function"`
	Obligation string `json:"obligation"` // obligation name (prefix match on name, without case)
	InputClass string `json:"input_class"`
	What       string `json:"what"`
	Status     string `json:"status"` // "known" or "fixed"
	Commit     string `json:"commit,omitempty"`
}

type KnownFile struct {
	Findings []KnownFinding `json:"findings"`
	Fixed    []string       `json:"fixed"`
}

type Baseline struct {
	// property -> function -> obligation names (name@case) discharged on the pinned tree
	Props map[string]map[string][]string `json:"properties"`
}

func loadJSON(path string, v any) error {
	b, err := os.ReadFile(path)
	if err != nil {
		return err
	}
	return json.Unmarshal(b, v)
}

func verifDir() string {
	if d := os.Getenv("VERIF_DIR"); d != "" {
		return d
	}
	return "/verif"
}

func oblFull(o *Obligation) string {
	if o.Case == "" {
		return o.Name
	}
	return o.Name + "@" + o.Case
}

type funcReport struct {
	Function    string   `json:"function"`
	Obligations int      `json:"obligations"`
	Discharged  int      `json:"discharged"`
	Cases       int      `json:"split_cases,omitempty"`
	Failed      []string `json:"failed,omitempty"`
	Error       string   `json:"error,omitempty"`
	Seconds     float64  `json:"solver_seconds"`
	Trusted     bool     `json:"trusted,omitempty"`
}

func cmdCheck(args []string) int {
	fs := flag.NewFlagSet("check", flag.ExitOnError)
	repo := fs.String("repo", "/repo", "")
	prop := fs.String("property", "", "")
	tier := fs.String("tier", "", "")
	pk := fs.String("pkg", strings.Join(defaultPatterns, ","), "")
	writeBaseline := fs.Bool("write-baseline", false, "record the discharged obligations as the baseline (developer use)")
	keep := fs.Bool("keep", false, "")
	noEvidence := fs.Bool("no-evidence", false, "self-test mode: do not write evidence; replay files go to a scratch directory")
	fs.Parse(args)
	if *tier == "" {
		*tier = os.Getenv("VERIF_TIER")
	}
	if *tier == "" {
		*tier = "quick"
	}
	seed := 0
	if s := os.Getenv("VERIF_SEED"); s != "" {
		seed, _ = strconv.Atoi(s)
	}
	vd := verifDir()
	outDir := vd
	if *noEvidence {
		outDir, _ = os.MkdirTemp("", "govc-selftest-out")
		defer os.RemoveAll(outDir)
	}
	t0 := time.Now()
	if *prop == "" {
		fmt.Fprintln(os.Stderr, "--property required")
		return 2
	}
	e, err := Load(*repo, strings.Split(*pk, ","), []string{filepath.Join(vd, "spec")})
	if err != nil {
		fmt.Printf("UNDECIDED property=%s reason=%q\n", *prop, err.Error())
		writeEvidenceError(outDir, *prop, *tier, seed, err.Error(), time.Since(t0).Seconds())
		return 2
	}
	var known KnownFile
	_ = loadJSON(filepath.Join(vd, "known_findings.json"), &known)
	var base Baseline
	_ = loadJSON(filepath.Join(vd, "baseline", "obligations.json"), &base)
	if base.Props == nil {
		base.Props = map[string]map[string][]string{}
	}
	baseSet := map[string]bool{}
	for fn, obs := range base.Props[*prop] {
		for _, o := range obs {
			baseSet[fn+"#"+normObl(o)] = true
		}
	}

	tmp, _ := os.MkdirTemp("", "govc-"+*prop+"-")
	if !*keep {
		defer os.RemoveAll(tmp)
	}
	cfg := SolverCfg{TmpDir: tmp, TimeoutS: 30, Deadline: t0.Add(240 * time.Second)}
	if *tier == "thorough" {
		cfg.TimeoutS = 120
		cfg.Confirm = true
		cfg.Deadline = t0.Add(1800 * time.Second)
	}

	// functions serving the property
	var keys []string
	for _, k := range e.Order {
		c := e.Contracts[k]
		if contains(c.Property, *prop) {
			keys = append(keys, k)
		}
	}
	// lemmas used by the selected contracts are proved in the same check
	seenKey := map[string]bool{}
	for _, k := range keys {
		seenKey[k] = true
	}
	for _, k := range append([]string{}, keys...) {
		for _, ln := range strings.Split(e.Contracts[k].Opts["uses"], ",") {
			if ln = strings.TrimSpace(ln); ln != "" && !seenKey["lemma:"+ln] && e.Contracts["lemma:"+ln] != nil {
				seenKey["lemma:"+ln] = true
				keys = append(keys, "lemma:"+ln)
			}
		}
	}
	if len(keys) == 0 {
		fmt.Printf("UNDECIDED property=%s reason=%q\n", *prop, "no contracts serve this property")
		writeEvidenceError(outDir, *prop, *tier, seed, "no contracts", time.Since(t0).Seconds())
		return 2
	}
	// every function of the baseline must still be under contract
	var missingFns []string
	for fn := range base.Props[*prop] {
		if strings.HasPrefix(fn, "lemma:") {
			continue
		}
		found := false
		for _, k := range keys {
			if k == fn {
				found = true
			}
		}
		if !found {
			fmt.Printf("UNDECIDED property=%s function=%s reason=%q\n", *prop, fn, "under contract in the baseline but no longer found in the program")
			missingFns = append(missingFns, fn)
		}
	}
	type fr struct {
		res *FuncResult
		vcs []*VC
	}
	var frs []*fr
	var jobs []solveJob
	for _, k := range keys {
		vcs, res := e.GenFunc(k)
		if res.Err != "" && res.ErrKind == "stale" {
			// a loop clause names a local that no longer exists: was it renamed?  Try the function's
			// variables the contract does not mention; a candidate is accepted only if every
			// obligation then discharges (an invariant is an auxiliary of the proof, so a proof found
			// this way is a proof of the same postconditions)
			if missing, cands := e.RenameCandidates(k, res.Err); len(cands) > 0 {
				for _, cand := range cands {
					e.alias = map[string]string{missing: cand}
					vcs2, res2 := e.GenFunc(k)
					e.alias = nil
					if res2.Err != "" {
						continue
					}
					var js []solveJob
					for _, vc := range vcs2 {
						for _, o := range vc.Obls {
							js = append(js, solveJob{vc: vc, o: o})
						}
					}
					e.Solve(js, cfg)
					all := true
					for _, o := range res2.Obls {
						want := "unsat"
						if o.Kind == "pre-sat" || o.Kind == "vacuity" {
							continue
						}
						if o.Result != want && matchKnown(&known, *prop, res2.Key, o) == nil {
							all = false
						}
					}
					if all {
						fmt.Printf("NOTE property=%s function=%s contract name %q resolved to the renamed local %q (every obligation discharges with it)\n", *prop, k, missing, cand)
						res2.Notes = append(res2.Notes, fmt.Sprintf("loop clauses name %q, which the function no longer has; proved with %q in its place", missing, cand))
						vcs, res = vcs2, res2
						break
					}
				}
			}
		}
		frs = append(frs, &fr{res, vcs})
		for _, vc := range vcs {
			for _, o := range vc.Obls {
				if matchKnown(&known, *prop, res.Key, o) != nil {
					o.Quick = true
				}
				jobs = append(jobs, solveJob{vc: vc, o: o})
			}
		}
	}
	genS := time.Since(t0).Seconds()
	e.Solve(jobs, cfg)

	// verdicts
	// A function that can no longer be found or translated (renamed, removed, contract names a local
	// that is gone) is reported as UNDECIDED and counted in the evidence; it is neither a violation nor
	// an alarm: the exit status speaks only about what was explored.
	exit := 0
	nObl, nDis, nKnown, nVac, nVacOK := 0, 0, 0, 0, 0
	bySolver := map[string]int{}
	var solverS float64
	var undecided []string
	sort.Strings(missingFns)
	for _, fn := range missingFns {
		undecided = append(undecided, fn+": under contract in the baseline but no longer found in the program")
	}
	var reports []funcReport
	var samples []map[string]any
	violations := 0
	totalReplays := 0
	newBase := map[string][]string{}
	os.MkdirAll(filepath.Join(outDir, "replays", *prop), 0o755)
	for _, f := range frs {
		rep := funcReport{Function: f.res.Short, Cases: f.res.Cases}
		if f.res.Short == "" {
			rep.Function = f.res.Key
		}
		if f.res.Err != "" {
			rep.Error = f.res.Err
			reports = append(reports, rep)
			// a function that was verified on the pinned tree can no longer be translated
			line := strings.SplitN(f.res.Err, "\n", 2)[0]
			fmt.Printf("UNDECIDED property=%s function=%s reason=%q\n", *prop, f.res.Key, line)
			undecided = append(undecided, f.res.Key+": "+line)
			continue
		}
		// loops without an invariant: how many the pinned tree had (pseudo entry of the baseline)
		newBase[f.res.Key] = append(newBase[f.res.Key], fmt.Sprintf("@bareloops=%d", f.res.BareLoops))
		baseBare := -1
		for _, b := range base.Props[*prop][f.res.Key] {
			if strings.HasPrefix(b, "@bareloops=") {
				baseBare, _ = strconv.Atoi(strings.TrimPrefix(b, "@bareloops="))
			}
		}
		moreBareLoops := baseBare >= 0 && f.res.BareLoops > baseBare
		// index obligation -> vc for replay
		vcOf := map[*Obligation]*VC{}
		for _, vc := range f.vcs {
			for _, o := range vc.Obls {
				vcOf[o] = vc
			}
		}
		emptyCase := map[string]bool{} // split cases excluded by the precondition
		for _, o := range f.res.Obls {
			if o.Kind == "pre-sat" && o.Result == "unsat" && o.Case != "" && f.res.Cases > 1 {
				emptyCase[o.Case] = true
			}
		}
		reportedKF := map[string]bool{}
		reportedV := map[string]bool{}
		replayTries := map[string]int{}
		reproducedName := map[string]bool{}
		for _, o := range f.res.Obls {
			solverS += o.Seconds
			full := oblFull(o)
			if o.Kind == "pre-sat" || o.Kind == "vacuity" {
				nVac++
				if o.Result == "sat" {
					nVacOK++
				} else if o.Result == "unsat" && emptyCase[o.Case] && (hasSatCase(f.res.Obls, "pre-sat") || len(emptyCase) < f.res.Cases-1) {
					// an empty split case (the precondition excludes it): not vacuity of the contract
					nVacOK++
				} else if o.Result == "unsat" {
					// vacuous contract: a tool/contract error, not a property violation
					fmt.Printf("UNDECIDED property=%s function=%s reason=%q\n", *prop, f.res.Key, "vacuity probe "+full+" is unsat: contradictory hypotheses")
					undecided = append(undecided, f.res.Key+"#"+full+": vacuous")
					if exit == 0 {
						exit = 2
					}
				}
				continue
			}
			ok := o.Result == "unsat"
			if ok {
				nObl++
				nDis++
				rep.Obligations++
				rep.Discharged++
				s := o.Solver
				bySolver[s]++
				newBase[f.res.Key] = append(newBase[f.res.Key], full)
				if len(samples) < 6 && !o.Folded && (len(samples) == 0 || samples[len(samples)-1]["function"] != f.res.Short) {
					samples = append(samples, map[string]any{"function": f.res.Short, "obligation": full, "kind": o.Kind, "clause": o.Detail, "result": o.Result, "solver": o.Solver, "seconds": round3(o.Seconds)})
				}
				continue
			}
			// failed: known finding?
			if kf := matchKnown(&known, *prop, f.res.Key, o); kf != nil && e.onlyKnownClass(vcOf[o], o, kf, cfg) {
				nKnown++
				key := kf.Function + "#" + kf.Obligation
				if !reportedKF[key] {
					reportedKF[key] = true
					fmt.Printf("KNOWN-FINDING: property=%s %s#%s %s\n", *prop, shortKey(kf.Function), kf.Obligation, kf.What)
				}
				continue
			}
			nObl++
			rep.Obligations++
			rep.Failed = append(rep.Failed, full+":"+o.Result)
			inBase := baseSet[f.res.Key+"#"+normObl(full)]
			if matchKnown(&known, *prop, f.res.Key, o) != nil {
				// the obligation of a listed known finding fails OUTSIDE the finding's input class: a
				// different violation of the same obligation, reported like a regression
				inBase = true
			}
			// replay
			rfile := filepath.Join(outDir, "replays", *prop, safeName(f.res.Short+"#"+full)+".json")
			var rr ReplayResult
			if reproducedName[normObl(o.Name)] || replayTries[normObl(o.Name)] >= 2 || totalReplays >= 6 || (!cfg.Deadline.IsZero() && time.Now().After(cfg.Deadline.Add(60*time.Second))) {
				// same obligation in another split case: already replayed; record without a new replay
				violations++
				continue
			}
			replayTries[normObl(o.Name)]++
			totalReplays++
			rr = e.tryReplay(vcOf[o], o, f.res, *repo, cfg, rfile, *prop)
			if rr.Reproduced {
				reproducedName[normObl(o.Name)] = true
			}
			switch {
			case !rr.Reproduced && moreBareLoops && !(strings.HasPrefix(o.Kind, "safety") && o.Result == "sat"):
				// the function now runs through a loop that has no invariant and that the pinned tree
				// did not have (a loop moved into a helper, a new loop): whatever the loop computes is
				// unknown to the proof, so a functional obligation that stops discharging says nothing
				// about the code
				undecided = append(undecided, f.res.Key+"#"+full+": "+o.Result+" (a loop without invariant was introduced)")
				fmt.Printf("UNDECIDED property=%s obligation=%s#%s result=%s reason=%q\n", *prop, f.res.Key, full, o.Result, "the function now contains a loop without invariant that the pinned tree did not have")
			case rr.Reproduced:
				violations++
				if !reportedV[normObl(o.Name)] {
					reportedV[normObl(o.Name)] = true
					fmt.Printf("VIOLATION property=%s replay=%s\n", *prop, rfile)
				}
				exit = 1
			case inBase || len(baseSet) == 0 ||
				(o.Result == "sat" && (strings.HasPrefix(rr.Outcome, "not-replayable") || (f.res.Contract != nil && f.res.Contract.SafetyOnly)) &&
					(strings.HasPrefix(o.Kind, "safety") || o.Kind == "call-pre" || o.Kind == "panics")):
				// in the baseline and no longer discharged, or a definite solver counterexample to a
				// no-runtime-fault obligation that cannot be replayed for lack of an input builder, or (in a
				// safety sweep over arbitrary arguments) whose replayed candidate did not fault because the
				// callees the model left arbitrary behave differently in reality
				violations++
				if !reportedV[normObl(o.Name)] {
					reportedV[normObl(o.Name)] = true
					fmt.Printf("VIOLATION property=%s replay=%s no-failing-input-found\n", *prop, rfile)
				}
				exit = 1
			default:
				undecided = append(undecided, f.res.Key+"#"+full+": "+o.Result+" (not in baseline, no replayable counterexample)")
				fmt.Printf("UNDECIDED property=%s obligation=%s#%s result=%s\n", *prop, f.res.Key, full, o.Result)
			}
		}
		rep.Seconds = 0
		for _, o := range f.res.Obls {
			rep.Seconds += o.Seconds
		}
		rep.Seconds = round3(rep.Seconds)
		reports = append(reports, rep)
	}
	// bounded stand-ins (labelled bounded, never counted as discharged)
	standinTier = *tier
	standins := runStandins(*repo, vd, *prop, tmp, &known)
	var standinEv []any
	for _, sr := range standins {
		standinEv = append(standinEv, sr)
		for _, l := range sr.KnownLines {
			fmt.Printf("KNOWN-FINDING: property=%s %s\n", *prop, l)
		}
		if sr.Error != "" {
			fmt.Printf("UNDECIDED property=%s standin=%s reason=%q\n", *prop, sr.Name, firstLineOf(sr.Error))
			undecided = append(undecided, "standin "+sr.Name+": "+firstLineOf(sr.Error))
			if exit == 0 {
				exit = 2
			}
		}
		if len(sr.Unknown) > 0 {
			rfile := filepath.Join(outDir, "replays", *prop, "standin-"+sr.Name+".json")
			b, _ := json.MarshalIndent(map[string]any{"property": *prop, "standin": sr.Name, "bound": sr.Bound, "failing_inputs": sr.Unknown,
				"replay": "bin/govc check --property " + *prop + " (re-runs the stand-in on the real code)"}, "", " ")
			os.WriteFile(rfile, b, 0o644)
			fmt.Printf("VIOLATION property=%s replay=%s\n", *prop, rfile)
			violations += len(sr.Unknown)
			exit = 1
		}
	}
	wall := time.Since(t0).Seconds()
	if *writeBaseline {
		base.Props[*prop] = newBase
		for k := range newBase {
			sort.Strings(newBase[k])
		}
		os.MkdirAll(filepath.Join(vd, "baseline"), 0o755)
		b, _ := json.MarshalIndent(base, "", " ")
		os.WriteFile(filepath.Join(vd, "baseline", "obligations.json"), b, 0o644)
	}
	// evidence
	var assumptions []string
	assumptions = append(assumptions,
		"signed Go integers are modelled as mathematical integers; every signed + - * << and narrowing conversion carries a discharged no-overflow obligation, under magnitude preconditions (bit offsets and lengths <= MaxBits = 2^60)",
		"unsigned Go integers are exact fixed-width bit-vectors",
		"go/types + go/ssa (x/tools v0.29.0) lowering of /repo's source is trusted; the Go compiler and runtime are trusted",
		"termination is not verified; memory exhaustion and stack depth are not modelled",
		"references are ordered by allocation (objects passed in are older than objects allocated by the function)")
	for _, n := range sortedKeys(e.Notes) {
		assumptions = append(assumptions, n)
	}
	for _, k := range sortedKeys(e.Contracts) {
		c := e.Contracts[k]
		if c.Trusted && e.usedTrusted[k] {
			assumptions = append(assumptions, "assumed (unverified) contract: "+k)
		}
	}
	for k := range e.Ifaces {
		_ = k
	}
	var fnames []string
	for _, r := range reports {
		fnames = append(fnames, r.Function)
	}
	cov := map[string]any{
		"obligations":              nObl,
		"discharged":               nDis,
		"checker_cmd":              fmt.Sprintf("bin/govc check --property %s --tier %s", *prop, *tier),
		"trusted_base":             []string{"govc VC generator (this repository, /verif/govc)", "golang.org/x/tools v0.29.0 go/ssa", "z3 5.1.0 (z3-new)", "z3 4.8.12", "cvc5 1.0.3"},
		"functions_under_contract": fnames,
		"per_function":             reports,
		"by_backend":               bySolver,
		"solver_seconds":           round3(solverS),
		"generation_seconds":       round3(genS),
		"known_findings":           nKnown,
		"undecided":                undecided,
		"vacuity_probes":           nVac,
		"vacuity_probes_ok":        nVacOK,
		"samples":                  samples,
		"bounded_standins":         standinEv,
		"two_solver_confirmation":  cfg.Confirm,
		"per_obligation_timeout_s": cfg.TimeoutS,
	}
	ev := map[string]any{
		"property_id": *prop,
		"tier":        *tier,
		"seed":        seed,
		"level":       "proof",
		"coverage":    cov,
		"assumptions": assumptions,
		"wall_s":      round3(wall),
		"violations":  violations,
	}
	os.MkdirAll(filepath.Join(outDir, "evidence"), 0o755)
	b, _ := json.MarshalIndent(ev, "", " ")
	os.WriteFile(filepath.Join(outDir, "evidence", *prop+".json"), b, 0o644)
	fmt.Printf("%s: %d functions, %d obligations, %d discharged, %d known findings, %d violations, %d undecided, %d/%d vacuity probes ok, %.1fs\n",
		*prop, len(reports), nObl, nDis, nKnown, violations, len(undecided), nVacOK, nVac, wall)
	return exit
}

var oblOrdinalRe = regexp.MustCompile(`(\.x\d+|\.e\d+|#\d+)`)

// normObl: obligation name without path/exit/call-site ordinals, which shift when code is edited.
func normObl(s string) string { return oblOrdinalRe.ReplaceAllString(s, "") }

func hasSatCase(obls []*Obligation, kind string) bool {
	for _, o := range obls {
		if o.Kind == kind && o.Result == "sat" {
			return true
		}
	}
	return false
}

func round3(f float64) float64 { return float64(int64(f*1000+0.5)) / 1000 }

func shortKey(k string) string { return strings.ReplaceAll(k, "github.com/wader/fq/", "") }

func safeName(s string) string {
	r := strings.NewReplacer("/", "_", "(", "", ")", "", "*", "", " ", "", "%", "mod", "=", "-", ",", "_", "#", "--", "@", "--")
	return r.Replace(s)
}

func matchKnown(k *KnownFile, prop, fn string, o *Obligation) *KnownFinding {
	for i := range k.Findings {
		kf := &k.Findings[i]
		if kf.Status == "fixed" {
			continue
		}
		if kf.Property != prop || kf.Function != fn {
			continue
		}
		if o.Name == kf.Obligation {
			return kf
		}
	}
	return nil
}

// onlyKnownClass: the obligation fails only inside the finding's input class, i.e. with the class
// excluded by an extra hypothesis the obligation is discharged.  A failure outside the class is a
// different violation and is reported as such.
func (e *Engine) onlyKnownClass(vc *VC, o *Obligation, kf *KnownFinding, cfg SolverCfg) (ok bool) {
	if kf.InputClass == "" {
		return true
	}
	if vc == nil || o.Env == nil {
		return false
	}
	defer func() {
		if r := recover(); r != nil {
			ok = false
		}
	}()
	ex, err := ParseExpr(kf.InputClass)
	if err != nil {
		return false
	}
	cls := o.Env.evalBool(ex)
	o2 := *o
	o2.Result, o2.Folded = "", false
	text := e.script(vc, &o2, []*Term{Not(cls)}, nil)
	file := filepath.Join(cfg.TmpDir, "known-"+safeName(o.Name+o.Case)+".smt2")
	os.WriteFile(file, []byte(text), 0o644)
	for _, s := range []string{"z3-new-inc", "z3-new", "cvc5", "z3"} {
		r, _, _ := runSolver(s, file, cfg.TimeoutS)
		if r == "unsat" {
			return true
		}
		if r == "sat" && s != "z3" {
			return false
		}
	}
	return false
}

func writeEvidenceError(vd, prop, tier string, seed int, msg string, wall float64) {
	ev := map[string]any{
		"property_id": prop, "tier": tier, "seed": seed, "level": "proof",
		"coverage": map[string]any{"obligations": 0, "discharged": 0, "checker_cmd": "bin/govc check --property " + prop, "trusted_base": []string{}, "explanation": "check could not run: " + msg},
		"wall_s":   wall, "violations": 0,
	}
	os.MkdirAll(filepath.Join(vd, "evidence"), 0o755)
	b, _ := json.MarshalIndent(ev, "", " ")
	os.WriteFile(filepath.Join(vd, "evidence", prop+".json"), b, 0o644)
}
