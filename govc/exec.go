package govc

// Symbolic execution of go/ssa function bodies into verification conditions.

import (
	"strconv"
	"fmt"
	"os"
	"go/constant"
	"go/token"
	"go/types"
	"math/big"
	"sort"
	"strings"

	"golang.org/x/tools/go/ssa"
)

// ---------- values ----------

type Val struct {
	T   *Term
	Tup []*Val
	P   *Place
	Fn  *FnVal
	Ty  types.Type
}

type Place struct {
	Comp string // heap component
	Elem *Sort  // element sort of the component
	Ref  *Term  // object ref / array id
	Idx  *Term  // element index for array memories, nil for fields/cells
	Ty   types.Type
	Sub  []int  // selector path into a struct-valued element (struct stored by value inside array/field)
}

type FnVal struct {
	Fn       *ssa.Function
	Bindings []*Val
}

// ---------- VC ----------

type Obligation struct {
	Name    string
	Kind    string
	Goal    *Term // must hold under Assumes[:NAssume]
	NAssume int
	Pos     string
	Detail  string
	Case    string
	// filled by solver
	Result  string
	Solver  string
	Seconds float64
	Model   map[string]string
	Output  string
	Folded  bool
	Env     *SpecEnv // environment the goal was evaluated in (for known-finding input classes)
	Quick   bool     // expected not to be provable (listed known finding): do not spend the full timeout on it
}

type VC struct {
	Approx   bool // quantifier-free candidate query (replay only)
	NoSafety bool
	BareLoops int // loops cut without invariant (incl. inlined callees)
	COI      bool // standalone queries keep only hypotheses in the goal's cone of influence
	Eng     *Engine
	Fn      *ssa.Function
	Case    string
	Assumes []*Term
	Obls    []*Obligation
	counts  map[string]int
	Inputs  []InputVar // symbolic inputs for replay (params etc.)
	X       *Exec
	Axioms  []*Term // user axioms (contract files); emitted only where relevant
	PreN    int        // number of assumptions that make up the precondition
}

type InputVar struct {
	Name string
	T    *Term
	Ty   types.Type
}

func (vc *VC) Assume(t *Term) {
	if t == nil || t.IsTrue() {
		return
	}
	vc.Assumes = append(vc.Assumes, t)
}

func (vc *VC) Oblige(kind string, name string, reach, goal *Term, pos string, detail string) *Obligation {
	if name == "" {
		vc.counts[kind]++
		name = fmt.Sprintf("%s.%d", kind, vc.counts[kind]-1)
	}
	full := Implies(reach, goal)
	if vc.NoSafety && strings.HasPrefix(kind, "safety") {
		// the contract opts out of run-time-fault obligations (listed as an assumption): assume instead
		vc.Assume(full)
		return &Obligation{Name: name, Kind: kind, Goal: True, Result: "unsat", Solver: "assumed", Folded: true}
	}
	o := &Obligation{Name: name, Kind: kind, Goal: full, NAssume: len(vc.Assumes), Pos: pos, Detail: detail, Case: vc.Case}
	if full.IsTrue() {
		o.Result = "unsat"
		o.Solver = "folded"
		o.Folded = true
	}
	vc.Obls = append(vc.Obls, o)
	return o
}

// ---------- executor ----------

type Exec struct {
	prunePaths bool
	unknownPure bool
	globalRefs  map[string]*Term
	noInline    bool // opt no-inline: callees without a contract are never inlined
	siteOrd     map[string]map[ssa.Instruction]int
	eng    *Engine
	vc     *VC
	heap0  map[string]*Term // entry heap
	top0   *Term
	allocs []*Term
	depth  int
	panicsWhen *Term // disjunction of "panics when" conditions of the function under contract (entry values)
	topFrame *Frame
	modeBV bool
	maxBits *Term
	sentinels map[string]*Term
	frameOK func(p *Place, heap map[string]*Term) *Term
	callSeqs map[string]int
	havocked bool
	opaque   map[string]bool
	zeroRow  *Term
	headRefs []*Term
	wrapSigned bool
	assumeCalleePre bool
}

type Frame struct {
	onEntry func(n *vnode)
	x        *Exec
	fn       *ssa.Function
	parent   *Frame
	params   []*Val
	free     []*Val
	contract *Contract
	g        *vgraph
	prefix   string
	depth    int
	names    map[string][]ssa.Value
	entryHeap map[string]*Term
	extraNames map[string]*Val // e.g. result names when evaluating posts
	backSeq    int
	headEnv    map[*loopInfo]*SpecEnv // state at the start of an arbitrary iteration, per loop
}

type exitPoint struct {
	cond    *Term
	heap    map[string]*Term
	results []*Val
}

func posStr(fset *token.FileSet, p token.Pos) string {
	if !p.IsValid() {
		return ""
	}
	ps := fset.Position(p)
	f := ps.Filename
	f = strings.TrimPrefix(f, "/repo/")
	return fmt.Sprintf("%s:%d", f, ps.Line)
}

func (x *Exec) pos(p token.Pos) string { return posStr(x.eng.Prog.Fset, p) }

// heap component access
func (x *Exec) comp(heap map[string]*Term, name string, s *Sort) *Term {
	if t, ok := heap[name]; ok {
		return t
	}
	t0, ok := x.heap0[name]
	if !ok {
		t0 = Var(name+"@0", s)
		x.heap0[name] = t0
		x.initCompAxioms(name, t0)
	}
	heap[name] = t0
	return t0
}

func (x *Exec) initCompAxioms(name string, t0 *Term) {
	if t0.S.K == KArray && t0.S.Elem == SSlice && (strings.HasPrefix(name, "H$") || strings.HasPrefix(name, "C$")) {
		r := Var("r?", SInt)
		sel := App("select", SSlice, t0, r)
		x.vc.Assume(Forall([]*Term{r}, And(Le(App("s-arr", SInt, sel), x.top0), Ge(App("s-arr", SInt, sel), IntLit(0)),
			Ge(App("s-off", SInt, sel), IntLit(0)), Ge(App("s-len", SInt, sel), IntLit(0)), Le(App("s-len", SInt, sel), App("s-cap", SInt, sel)),
			Le(App("s-cap", SInt, sel), IntLit(1<<62)),
			Implies(App("=", SBool, App("s-arr", SInt, sel), IntLit(0)), App("=", SBool, App("s-cap", SInt, sel), IntLit(0))))))
	}
	// pre-existing references are <= top0 (allocation order), >= 0
	s := t0.S
	if s.K == KArray && s.Elem.K == KInt && (strings.HasPrefix(name, "H$") || strings.HasPrefix(name, "C$")) && strings.HasSuffix(name, "#ref") {
		r := Var("r?", SInt)
		sel := App("select", SInt, t0, r)
		x.vc.Assume(Forall([]*Term{r}, And(Le(sel, x.top0), Ge(sel, IntLit(0)))))
	}
}

// initCompAxiomsWF: well-formedness of a havocked heap component (no allocation-order facts: it may
// hold references to objects allocated since entry)
func (x *Exec) initCompAxiomsWF(name string, t *Term) {
	if t.S.K == KArray && t.S.Elem == SSlice && (strings.HasPrefix(name, "H$") || strings.HasPrefix(name, "C$")) {
		r := Var("r?", SInt)
		sel := App("select", SSlice, t, r)
		x.vc.Assume(Forall([]*Term{r}, And(Ge(App("s-arr", SInt, sel), IntLit(0)),
			Ge(App("s-off", SInt, sel), IntLit(0)), Ge(App("s-len", SInt, sel), IntLit(0)), Le(App("s-len", SInt, sel), App("s-cap", SInt, sel)),
			Le(App("s-cap", SInt, sel), IntLit(1<<62)),
			Implies(App("=", SBool, App("s-arr", SInt, sel), IntLit(0)), App("=", SBool, App("s-cap", SInt, sel), IntLit(0))))))
	}
	if s := t.S; s.K == KArray && s.Elem.K == KInt && (strings.HasPrefix(name, "H$") || strings.HasPrefix(name, "C$")) && strings.HasSuffix(name, "#ref") {
		r := Var("r?", SInt)
		x.vc.Assume(Forall([]*Term{r}, Ge(App("select", SInt, t, r), IntLit(0))))
	}
}

// assumeWellFormed: a havocked slice header is still a slice header (0 <= len <= cap, nil has cap 0)
func (x *Exec) assumeWellFormed(v *Term) {
	if v.S != SSlice {
		return
	}
	x.vc.Assume(And(Ge(SArr(v), IntLit(0)), Ge(SOff(v), IntLit(0)), Ge(SLen(v), IntLit(0)), Le(SLen(v), SCap(v)), Le(SCap(v), IntLit(1<<62)),
		Implies(Eq(SArr(v), IntLit(0)), Eq(SCap(v), IntLit(0)))))
}

func fieldComp(structKey, field string, s *Sort, isRef bool) string {
	n := "H$" + ident(structKey) + "$" + field
	if isRef {
		n += "#ref"
	}
	return n
}

func memComp(elem *Sort) string { return "M$" + elem.Short() }

func memSort(elem *Sort) *Sort { return SArray(SInt, SArray(SInt, elem)) }

func isRefType(t types.Type) bool {
	switch t.Underlying().(type) {
	case *types.Pointer, *types.Interface, *types.Map, *types.Chan, *types.Signature:
		return true
	}
	return false
}

// readPlace / writePlace
func (x *Exec) readPlace(heap map[string]*Term, p *Place) *Term {
	var v *Term
	if p.Idx != nil {
		m := x.comp(heap, p.Comp, memSort(p.Elem))
		v = Select(Select(m, p.Ref), p.Idx)
	} else {
		m := x.comp(heap, p.Comp, SArray(SInt, p.Elem))
		v = Select(m, p.Ref)
	}
	for _, i := range p.Sub {
		v = StructSel(v, i)
	}
	return v
}

func updStruct(v *Term, path []int, nv *Term) *Term {
	if len(path) == 0 {
		return nv
	}
	s := v.S
	fs := make([]*Term, len(s.Fields))
	for i := range s.Fields {
		if i == path[0] {
			fs[i] = updStruct(StructSel(v, i), path[1:], nv)
		} else {
			fs[i] = StructSel(v, i)
		}
	}
	return MkStruct(s, fs...)
}

func (x *Exec) writePlace(heap map[string]*Term, p *Place, v *Term) {
	if p.Idx != nil {
		m := x.comp(heap, p.Comp, memSort(p.Elem))
		row := Select(m, p.Ref)
		nv := v
		if len(p.Sub) > 0 {
			nv = updStruct(Select(row, p.Idx), p.Sub, v)
		}
		if x.opaque["bitAt"] && p.Elem.K == KBV && p.Elem.W == 8 && len(p.Sub) == 0 {
			// opaque bit view: echo the byte store at the bit level
			nr := x.eng.FreshVar("row", row.S)
			x.vc.Assume(App("=", SBool, nr, Store(row, p.Idx, nv)))
			B := Var("B?", SInt)
			lo := Mul(IntLit(8), p.Idx)
			in := And(Le(lo, B), Lt(B, Add(lo, IntLit(8))))
			q := Forall([]*Term{B}, Ite(in, Eq(x.rowBit(nr, B), x.bitOfByte(nv, Sub(B, lo))), Eq(x.rowBit(nr, B), x.rowBit(row, B))))
			q.Pats = [][]*Term{{x.rowBit(nr, B)}}
			x.vc.Assume(q)
			heap[p.Comp] = x.nameBig(Store(m, p.Ref, nr), p.Comp)
			return
		}
		heap[p.Comp] = x.nameBig(Store(m, p.Ref, Store(row, p.Idx, nv)), p.Comp)
	} else {
		m := x.comp(heap, p.Comp, SArray(SInt, p.Elem))
		nv := v
		if len(p.Sub) > 0 {
			nv = updStruct(Select(m, p.Ref), p.Sub, v)
		}
		heap[p.Comp] = x.nameBig(Store(m, p.Ref, nv), p.Comp)
	}
}

// nameBig introduces a definition for large terms to keep VCs linear in size.
func (x *Exec) nameBig(t *Term, hint string) *Term {
	limit := 48
	if t.S.K == KArray {
		limit = 120
	}
	if t.Size() <= limit || t.Op == "var" || t.IsLit() {
		return t
	}
	v := x.eng.FreshVar(strings.SplitN(hint, "!", 2)[0], t.S)
	x.vc.Assume(App("=", SBool, v, t))
	if t.S.K == KInt {
		IntDefs[v.Name] = t
	}
	return v
}

func cloneHeap(h map[string]*Term) map[string]*Term {
	n := make(map[string]*Term, len(h))
	for k, v := range h {
		n[k] = v
	}
	return n
}

// typeConstraint: range facts for a symbolic value of Go type t.
func (x *Exec) typeConstraint(v *Term, t types.Type) *Term {
	switch u := t.Underlying().(type) {
	case *types.Basic:
		if isSigned(u) && v.S.K == KInt {
			w := intWidth(u)
			lo := new(big.Int).Neg(new(big.Int).Lsh(big.NewInt(1), uint(w-1)))
			hi := new(big.Int).Sub(new(big.Int).Lsh(big.NewInt(1), uint(w-1)), big.NewInt(1))
			return And(Ge(v, IntBig(lo)), Le(v, IntBig(hi)))
		}
	case *types.Slice:
		return And(Ge(SArr(v), IntLit(0)), Ge(SOff(v), IntLit(0)), Ge(SLen(v), IntLit(0)), Le(SLen(v), SCap(v)),
			Le(SCap(v), IntLit(1<<62)), Le(SOff(v), IntLit(1<<62)),
			Implies(Eq(SArr(v), IntLit(0)), And(Eq(SLen(v), IntLit(0)), Eq(SCap(v), IntLit(0)))))
	case *types.Interface:
		if types.Identical(u, errorIface) {
			// a non-nil error holds a value of a type that implements error
			x.eng.DeclareUF("implErr", SBool, SInt)
			return And(Ge(v, IntLit(0)), Implies(Neq(v, IntLit(0)), App("implErr", SBool, x.dynType(v))))
		}
		return Ge(v, IntLit(0))
	case *types.Pointer, *types.Map, *types.Chan, *types.Signature:
		return Ge(v, IntLit(0))
	case *types.Struct:
		var cs []*Term
		for i := 0; i < u.NumFields(); i++ {
			cs = append(cs, x.typeConstraint(StructSel(v, i), u.Field(i).Type()))
		}
		return And(cs...)
	}
	return True
}

// existing: the value existed before this function started (refs <= top0)
func (x *Exec) existing(v *Term, t types.Type) *Term {
	switch u := t.Underlying().(type) {
	case *types.Slice:
		return Le(SArr(v), x.top0)
	case *types.Pointer, *types.Interface, *types.Map, *types.Chan, *types.Signature:
		return Le(v, x.top0)
	case *types.Struct:
		var cs []*Term
		for i := 0; i < u.NumFields(); i++ {
			cs = append(cs, x.existing(StructSel(v, i), u.Field(i).Type()))
		}
		return And(cs...)
	}
	return True
}

func (x *Exec) freshVal(hint string, t types.Type) *Val {
	if tup, ok := t.(*types.Tuple); ok {
		v := &Val{Ty: t}
		for i := 0; i < tup.Len(); i++ {
			v.Tup = append(v.Tup, x.freshVal(fmt.Sprintf("%s.%d", hint, i), tup.At(i).Type()))
		}
		return v
	}
	tv := x.eng.FreshVar(hint, x.eng.SortOf(t))
	x.vc.Assume(x.typeConstraint(tv, t))
	return &Val{T: tv, Ty: t}
}

func (x *Exec) newRef(hint string) *Term {
	r := x.eng.FreshVar(hint, SRef)
	x.vc.Assume(Gt(r, x.top0))
	// injectivity of allocation: pairwise for the first few objects, then (to stay linear in
	// functions with hundreds of allocations) a strictly increasing chain among the later ones
	const pairwise = 16
	for i, a := range x.allocs {
		if i < pairwise {
			x.vc.Assume(Not(App("=", SBool, r, a)))
		}
	}
	if len(x.allocs) > pairwise {
		x.vc.Assume(Gt(r, x.allocs[len(x.allocs)-1]))
	}
	// values that were live at a loop head (arbitrary iteration) existed before anything allocated later
	for _, h := range x.headRefs {
		x.vc.Assume(Not(App("=", SBool, r, h)))
	}
	x.allocs = append(x.allocs, r)
	x.eng.DeclareUF("embtag", SInt, SInt)
	x.vc.Assume(Eq(App("embtag", SInt, r), IntLit(0)))
	return r
}

// ---------- frame: names, lookup ----------

func (fr *Frame) buildNames() {
	fr.names = map[string][]ssa.Value{}
	add := func(n string, v ssa.Value) {
		for _, o := range fr.names[n] {
			if o == v {
				return
			}
		}
		fr.names[n] = append(fr.names[n], v)
	}
	for _, p := range fr.fn.Params {
		add(p.Name(), p)
	}
	for _, fv := range fr.fn.FreeVars {
		add(fv.Name(), fv)
	}
	for _, b := range fr.fn.Blocks {
		for _, in := range b.Instrs {
			switch d := in.(type) {
			case *ssa.DebugRef:
				if id, ok := d.Expr.(interface{ String() string }); ok {
					_ = id
				}
				if d.IsAddr {
					// X is the address of the variable
				}
				if obj := d.Object(); obj != nil {
					if _, isVar := obj.(*types.Var); isVar {
						add(obj.Name(), d.X)
					}
				}
			case *ssa.Phi:
				if d.Comment != "" {
					add(d.Comment, d)
				}
			case *ssa.Alloc:
				if d.Comment != "" {
					add(d.Comment, d)
				}
			}
		}
	}
}

func (fr *Frame) lookup(v ssa.Value, n *vnode) *Val {
	switch c := v.(type) {
	case *ssa.Const:
		return fr.x.constVal(c)
	case *ssa.Parameter:
		for i, p := range fr.fn.Params {
			if p == c {
				return fr.params[i]
			}
		}
		panic("param not found")
	case *ssa.FreeVar:
		for i, p := range fr.fn.FreeVars {
			if p == c {
				return fr.free[i]
			}
		}
		panic("freevar not found")
	case *ssa.Global:
		return &Val{T: fr.x.globalRef(c), Ty: c.Type()}
	case *ssa.Function:
		return &Val{Fn: &FnVal{Fn: c}, T: fr.x.eng.UF("fn$"+ident(c.String()), SRef), Ty: c.Type()}
	case *ssa.Builtin:
		return &Val{Ty: c.Type()}
	}
	return fr.lookupIn(v, n)
}

func (fr *Frame) lookupIn(v ssa.Value, n *vnode) *Val {
	if d, ok := n.defs[v]; ok {
		return d
	}
	if m, ok := n.memo[v]; ok {
		return m
	}
	var live []*vedge
	for _, e := range n.preds {
		if e.cond != nil && !e.cond.IsFalse() && !e.from.dead {
			live = append(live, e)
		}
	}
	if len(live) == 0 {
		// the defining block was pruned as unreachable by constant folding while this use was not:
		// an arbitrary value is a sound over-approximation
		fr.x.eng.Note(fmt.Sprintf("value %s in %s: defining block pruned, treated as arbitrary", v.Name(), fr.fn))
		res := fr.x.freshVal("pruned$"+v.Name(), v.Type())
		if n.memo == nil {
			n.memo = map[ssa.Value]*Val{}
		}
		n.memo[v] = res
		return res
	}
	var res *Val
	if len(live) == 1 {
		res = fr.lookupIn(v, live[0].from)
	} else {
		vals := make([]*Val, len(live))
		same := true
		for i, e := range live {
			vals[i] = fr.lookupIn(v, e.from)
			if vals[i] != vals[0] {
				same = false
			}
		}
		if same {
			res = vals[0]
		} else {
			res = fr.x.mergeVals(live, vals)
		}
	}
	if n.memo == nil {
		n.memo = map[ssa.Value]*Val{}
	}
	n.memo[v] = res
	return res
}

func (x *Exec) mergeVals(edges []*vedge, vals []*Val) *Val {
	v0 := vals[0]
	if v0.Tup != nil {
		r := &Val{Ty: v0.Ty}
		for i := range v0.Tup {
			sub := make([]*Val, len(vals))
			for j := range vals {
				sub[j] = vals[j].Tup[i]
			}
			r.Tup = append(r.Tup, x.mergeVals(edges, sub))
		}
		return r
	}
	if v0.P != nil || (v0.T == nil && v0.Fn != nil) {
		for _, v := range vals[1:] {
			if v != v0 {
				bail("merge of pointer places / function values at a join")
			}
		}
		return v0
	}
	t := vals[len(vals)-1].T
	for i := len(vals) - 2; i >= 0; i-- {
		if vals[i].T == t {
			continue
		}
		t = Ite(edges[i].cond, vals[i].T, t)
	}
	r := &Val{T: x.nameBig(t, "phi"), Ty: v0.Ty}
	// keep a known function value if all agree
	allFn := v0.Fn
	for _, v := range vals {
		if v.Fn != allFn {
			allFn = nil
		}
	}
	r.Fn = allFn
	return r
}

func (x *Exec) globalRef(g *ssa.Global) *Term {
	name := "g$" + ident(g.Pkg.Pkg.Path()+"."+g.Name())
	t := x.eng.UF(name, SRef)
	if x.globalRefs == nil {
		x.globalRefs = map[string]*Term{}
	}
	if _, ok := x.globalRefs[name]; !ok {
		// package-level variables are distinct objects that exist before the function runs
		x.vc.Assume(And(Gt(t, IntLit(0)), Le(t, x.top0)))
		for _, k := range sortedKeys(x.globalRefs) {
			x.vc.Assume(Neq(x.globalRefs[k], t))
		}
		x.globalRefs[name] = t
	}
	return t
}

var strLits = map[string]*Term{}

func (x *Exec) constVal(c *ssa.Const) *Val {
	t := c.Type()
	if c.Value == nil {
		// zero value
		return &Val{T: x.zeroOf(t), Ty: t}
	}
	switch u := t.Underlying().(type) {
	case *types.Basic:
		switch {
		case u.Info()&types.IsBoolean != 0:
			return &Val{T: BoolLit(constant.BoolVal(c.Value)), Ty: t}
		case u.Info()&types.IsInteger != 0:
			bi, ok := constant.Val(constant.ToInt(c.Value)).(*big.Int)
			if !ok {
				i64, _ := constant.Int64Val(constant.ToInt(c.Value))
				bi = big.NewInt(i64)
			}
			if isSigned(u) && !x.modeBV {
				return &Val{T: IntBig(bi), Ty: t}
			}
			return &Val{T: BVBig(bi, intWidth(u)), Ty: t}
		case u.Info()&types.IsString != 0:
			s := constant.StringVal(c.Value)
			return &Val{T: x.strLit(s), Ty: t}
		case u.Info()&types.IsFloat != 0:
			f, _ := constant.Float64Val(c.Value)
			srt := x.eng.SortOf(t)
			return &Val{T: fpLit(f, srt), Ty: t}
		}
	}
	bail("constant %s of type %s", c, t)
	return nil
}

func (x *Exec) strLit(s string) *Term {
	if t, ok := strLits[s]; ok {
		return t
	}
	name := fmt.Sprintf("str$%d", len(strLits))
	if s == "" {
		name = "str$empty"
	}
	t := x.eng.UF(name, SStr)
	strLits[s] = t
	strLitLen[name] = len(s)
	return t
}

var strLitLen = map[string]int{}

func (x *Exec) zeroOf(t types.Type) *Term {
	switch u := t.Underlying().(type) {
	case *types.Basic:
		switch {
		case u.Info()&types.IsBoolean != 0:
			return False
		case u.Info()&types.IsInteger != 0:
			if isSigned(u) && !x.modeBV {
				return IntLit(0)
			}
			return BVLit(0, intWidth(u))
		case u.Info()&types.IsString != 0:
			return x.strLit("")
		case u.Info()&types.IsFloat != 0:
			return fpLit(0, x.eng.SortOf(t))
		case u.Kind() == types.UnsafePointer || u.Kind() == types.UntypedNil:
			return IntLit(0)
		}
	case *types.Pointer, *types.Interface, *types.Map, *types.Chan, *types.Signature:
		return IntLit(0)
	case *types.Slice:
		return MkSlice(IntLit(0), IntLit(0), IntLit(0), IntLit(0))
	case *types.Struct:
		s := x.eng.SortOf(t)
		var fs []*Term
		for i := 0; i < u.NumFields(); i++ {
			fs = append(fs, x.zeroOf(u.Field(i).Type()))
		}
		return MkStruct(s, fs...)
	case *types.Array:
		s := x.eng.SortOf(t)
		return &Term{Op: "(as const " + s.String() + ")", Args: []*Term{x.zeroOf(u.Elem())}, S: s}
	}
	bail("zero value of %s", t)
	return nil
}

func fpLit(f float64, s *Sort) *Term {
	if f == 0 {
		return App(fmt.Sprintf("(_ +zero %d %d)", s.W, s.W2), s)
	}
	r := new(big.Rat).SetFloat64(f)
	return &Term{Op: fmt.Sprintf("((_ to_fp %d %d) RNE (/ %s.0 %s.0))", s.W, s.W2, r.Num().String(), r.Denom().String()), S: s}
}

// ---------- running a function body ----------

func (x *Exec) newFrame(fn *ssa.Function, parent *Frame, params, free []*Val, c *Contract) *Frame {
	fr := &Frame{x: x, fn: fn, parent: parent, params: params, free: free, contract: c}
	if parent != nil {
		fr.depth = parent.depth + 1
	}
	if len(fn.Blocks) == 0 {
		bail("function %s has no body", fn)
	}
	fr.g = buildVGraph(fn, c)
	// loops cut without an invariant of their own (in this function or in an inlined callee): a proof
	// that goes through one knows nothing about what the loop did
	for _, li := range fr.g.loops {
		if li.spec == nil {
			x.vc.BareLoops++
		}
	}
	if c != nil {
		for k := range c.Loops {
			if n, err := strconv.Atoi(k); err == nil && n >= len(fr.g.loops) {
				if len(fr.g.loops) == 0 {
					// the function no longer has any loop of its own (replaced by a builtin such as clear/copy, or
					// moved into a helper): the clauses have nothing to attach to and the body is decided without
					// them - a loop-free body needs no invariant, and a loop inside an inlined helper counts as a
					// bare loop (functional obligations that then stop discharging are UNDECIDED, see BareLoops)
					x.eng.Note(fmt.Sprintf("%s: contract has loop clauses but the function has no loop; clauses ignored", fn))
					continue
				}
				stale("contract has clauses for loop %d but %s has %d loop(s)", n, fn, len(fr.g.loops))
			}
		}
	}
	if c != nil && parent == nil {
		// a cut-point assertion watches a call the function makes; when the function no longer makes any
		// such call the clause says nothing any more and the contract no longer describes the code
		for _, as := range c.Asserts {
			if as.Trust {
				continue
			}
			found := false
			for _, b := range fn.Blocks {
				for _, in := range b.Instrs {
					ci, isCall := in.(*ssa.Call)
					if !isCall {
						continue
					}
					if _, isB := ci.Common().Value.(*ssa.Builtin); isB {
						continue
					}
					cn := "dynamic"
					if f := ci.Common().StaticCallee(); f != nil {
						cn = f.String()
					} else if ci.Common().IsInvoke() {
						cn = ci.Common().Method.FullName()
					}
					cs := strings.TrimSuffix(cn, "[int64]")
					if strings.HasSuffix(cn, as.Callee) || strings.HasSuffix(cs, as.Callee) {
						found = true
					}
				}
			}
			if !found {
				stale("contract has an 'assert at %s' clause but %s makes no such call", as.Callee, fn)
			}
		}
	}
	fr.buildNames()
	return fr
}

// run executes the body from the given entry state and returns the exits (returns).
func (fr *Frame) run(reach *Term, heap map[string]*Term) []*exitPoint {
	x := fr.x
	fr.entryHeap = cloneHeap(heap)
	var exits []*exitPoint
	for _, n := range fr.g.nodes {
		if n == fr.g.entry {
			n.reach = reach
			n.heap = cloneHeap(heap)
			if fr.onEntry != nil {
				n.defs = map[ssa.Value]*Val{}
				fr.onEntry(n)
			}
		} else {
			var live []*vedge
			for _, e := range n.preds {
				if e.cond != nil && !e.cond.IsFalse() && !e.from.dead {
					live = append(live, e)
				}
			}
			if len(live) == 0 {
				n.dead = true
				continue
			}
			var cs []*Term
			for _, e := range live {
				cs = append(cs, e.cond)
			}
			n.reach = Or(cs...)
			if len(live) > 1 && n.reach.Size() > 30 {
				rv := x.eng.FreshVar("reach", SBool)
				x.vc.Assume(App("=", SBool, rv, n.reach))
				n.reach = rv
			}
			n.heap = x.mergeHeaps(live)
		}
		n.defs = map[ssa.Value]*Val{}
		switch n.kind {
		case nkUnwindSink:
			x.vc.Oblige("unwind", fmt.Sprintf("%sunwind.%d", fr.prefix, n.loop.ordinal), n.reach, False, x.pos(n.b.Instrs[0].Pos()),
				fmt.Sprintf("loop %d needs more than %d iterations", n.loop.ordinal, n.loop.spec.Unroll))
			n.dead = true
			continue
		case nkBackSink:
			fr.backSeq++
			fr.checkInvariants(n, fmt.Sprintf("inv-pres.e%d", fr.backSeq-1))
			n.dead = true
			continue
		}
		// phis
		if n.cut {
			fr.cutHead(n)
		} else {
			fr.evalPhis(n)
		}
		ex := fr.execBlock(n)
		if ex != nil {
			exits = append(exits, ex)
		}
	}
	return exits
}

func (x *Exec) mergeHeaps(live []*vedge) map[string]*Term {
	if len(live) == 1 {
		return cloneHeap(live[0].heap)
	}
	names := map[string]bool{}
	for _, e := range live {
		for k := range e.heap {
			names[k] = true
		}
	}
	out := map[string]*Term{}
	for _, k := range sortedKeys(names) {
		var ts []*Term
		for _, e := range live {
			t, ok := e.heap[k]
			if !ok {
				t = x.heap0[k]
			}
			ts = append(ts, t)
		}
		t := ts[len(ts)-1]
		for i := len(ts) - 2; i >= 0; i-- {
			if ts[i] == t {
				continue
			}
			t = Ite(live[i].cond, ts[i], t)
		}
		if t.Op == "ite" {
			v := x.eng.FreshVar(strings.SplitN(k, "!", 2)[0], t.S)
			x.vc.Assume(App("=", SBool, v, t))
			t = v
		}
		out[k] = t
	}
	return out
}

func (fr *Frame) evalPhis(n *vnode) {
	var live []*vedge
	for _, e := range n.preds {
		if e.cond != nil && !e.cond.IsFalse() && !e.from.dead {
			live = append(live, e)
		}
	}
	for _, in := range n.b.Instrs {
		phi, ok := in.(*ssa.Phi)
		if !ok {
			break
		}
		if len(live) == 0 {
			continue
		}
		vals := make([]*Val, len(live))
		for i, e := range live {
			vals[i] = fr.lookup(phi.Edges[e.predIdx], e.from)
		}
		if len(live) == 1 {
			n.defs[phi] = vals[0]
		} else {
			n.defs[phi] = fr.x.mergeVals(live, vals)
		}
	}
}

// loop heads with invariants
func (fr *Frame) cutHead(n *vnode) {
	x := fr.x
	// 1. entry: phis take merged entry values; check invariants
	fr.evalPhis(n)
	fr.checkInvariantsAt(n, n, "inv-init", nil)
	// 2. havoc
	mods := fr.loopMods(n)
	for _, in := range n.b.Instrs {
		phi, ok := in.(*ssa.Phi)
		if !ok {
			break
		}
		old := n.defs[phi]
		if old != nil && (old.P != nil) {
			bail("phi of pointer places at loop head in %s", fr.fn)
		}
		nv := x.freshVal(phi.Comment+"$"+phi.Name(), phi.Type())
		n.defs[phi] = nv
		// range loops: the hidden index only counts up from -1 (rangeindex) / 0 (rangeint)
		if nv.T != nil && nv.T.S.K == KInt {
			if phi.Comment == "rangeindex" {
				x.vc.Assume(Ge(nv.T, IntLit(-1)))
				// ... and stays below the length it is compared with (len >= 0): phi' = phi+1 only if phi+1 < len
				for _, in2 := range n.b.Instrs {
					if bo, ok := in2.(*ssa.BinOp); ok && bo.Op == token.LSS {
						if inc, ok := bo.X.(*ssa.BinOp); ok && inc.X == ssa.Value(phi) {
							if lv := fr.lookup(bo.Y, n); lv != nil && lv.T != nil && lv.T.S.K == KInt {
								x.vc.Assume(Lt(nv.T, Ite(Ge(lv.T, IntLit(0)), lv.T, IntLit(0))))
							}
						}
					}
				}
			} else if phi.Comment == "rangeint.iter" {
				x.vc.Assume(Ge(nv.T, IntLit(0)))
			}
		}
		if nv.T != nil {
			switch phi.Type().Underlying().(type) {
			case *types.Slice:
				x.headRefs = append(x.headRefs, SArr(nv.T))
			case *types.Pointer, *types.Interface, *types.Map:
				x.headRefs = append(x.headRefs, nv.T)
			}
		}
	}
	for _, m := range mods {
		cur, ok := n.heap[m.comp]
		if !ok {
			continue // component not yet touched: comp() creates it lazily at the entry version; force
		}
		if m.ref == nil {
			nv := x.eng.FreshVar(m.comp, cur.S)
			x.initCompAxiomsWF(m.comp, nv)
			n.heap[m.comp] = nv
		} else {
			row := x.eng.FreshVar(m.comp+"$row", cur.S.Elem)
			x.assumeWellFormed(row)
			n.heap[m.comp] = Store(cur, m.ref, row)
		}
	}
	// 3. assume invariants
	fr.assumeInvariants(n)
	if fr.headEnv == nil {
		fr.headEnv = map[*loopInfo]*SpecEnv{}
	}
	fr.headEnv[n.loop] = fr.specEnv(n, cloneHeap(n.heap))
}

type modTarget struct {
	comp string
	ref  *Term // nil = whole component
}

func (fr *Frame) invariantClauses(li *loopInfo) []*Clause {
	if li.spec == nil {
		return nil
	}
	return li.spec.Invariants
}

func (fr *Frame) checkInvariants(sink *vnode, kind string) {
	// sink has exactly one pred edge (a back edge)
	e := sink.preds[0]
	// values of the head phis along this edge
	override := map[ssa.Value]*Val{}
	for _, in := range sink.b.Instrs {
		phi, ok := in.(*ssa.Phi)
		if !ok {
			break
		}
		override[phi] = fr.lookup(phi.Edges[e.predIdx], e.from)
	}
	sink.defs = override
	fr.checkInvariantsAt(sink, sink, kind, override)
}

func (fr *Frame) checkInvariantsAt(n *vnode, at *vnode, kind string, override map[ssa.Value]*Val) {
	li := n.loop
	for i, c := range fr.invariantClauses(li) {
		env := fr.specEnv(at, at.heap)
		t := env.evalBool(c.E)
		if os.Getenv("GOVC_DEBUG") != "" {
			fmt.Fprintf(os.Stderr, "DEBUG %s %s.%d: %s  =>  %s\n", kind, fr.fn.Name(), i, c.Text, truncate(t.String(), 300))
		}
		k := kind
		if strings.HasPrefix(kind, "inv-pres") {
			k = "inv-pres"
		}
		ob := fr.x.vc.Oblige(k, fmt.Sprintf("%s%s.%d.%d", fr.prefix, kind, li.ordinal, i), at.reach, t, fr.x.pos(li.head.Instrs[0].Pos()), c.Text)
		ob.Env = env
		if strings.HasPrefix(kind, "inv-pres") && fr.headEnv != nil && fr.headEnv[li] != nil {
			// known-finding input classes of preservation obligations talk about the iteration's start state
			ob.Env = fr.headEnv[li]
		}
	}
}

func (fr *Frame) assumeInvariants(n *vnode) {
	li := n.loop
	for _, c := range fr.invariantClauses(li) {
		env := fr.specEnv(n, n.heap)
		t := env.evalBool(c.E)
		fr.x.vc.Assume(Implies(n.reach, t))
	}
}

// loopMods: heap locations possibly written inside the loop (see DESIGN §3.6).
func (fr *Frame) loopMods(n *vnode) []modTarget {
	li := n.loop
	x := fr.x
	var out []modTarget
	whole := map[string]bool{}
	addWhole := func(comp string) {
		if !whole[comp] {
			whole[comp] = true
			out = append(out, modTarget{comp: comp})
		}
	}
	addRef := func(comp string, ref *Term) {
		if whole[comp] {
			return
		}
		for _, o := range out {
			if o.comp == comp && o.ref != nil && Equal(o.ref, ref) {
				return
			}
		}
		out = append(out, modTarget{comp: comp, ref: ref})
	}
	inLoop := func(v ssa.Value) bool {
		if in, ok := v.(ssa.Instruction); ok {
			return li.body[in.Block()]
		}
		return false
	}
	// base tracing
	var base func(v ssa.Value) (ssa.Value, bool)
	base = func(v ssa.Value) (ssa.Value, bool) {
		switch a := v.(type) {
		case *ssa.Slice:
			return base(a.X)
		case *ssa.IndexAddr:
			return base(a.X)
		case *ssa.FieldAddr:
			return base(a.X)
		case *ssa.Alloc:
			return a, true
		case *ssa.ChangeType:
			return base(a.X)
		}
		return v, true
	}
	everything := false
	var visitFn func(fn *ssa.Function, depth int, top bool)
	handleStore := func(addr ssa.Value, top bool) {
		b, _ := base(addr)
		if al, ok := b.(*ssa.Alloc); ok && (inLoop(al) || !top) {
			_ = al
			return // local to an iteration / to the inlined callee
		}
		comp, isMem := x.compOfAddr(addr)
		if comp == "" {
			// store of a whole struct value into a struct-typed field / object: all of its field components
			if pt, ok := derefType(addr.Type()); ok {
				if _, isStruct := pt.Underlying().(*types.Struct); isStruct {
					var add func(t types.Type) bool
					add = func(t types.Type) bool {
						st := t.Underlying().(*types.Struct)
						for i := 0; i < st.NumFields(); i++ {
							f := st.Field(i)
							switch f.Type().Underlying().(type) {
							case *types.Struct:
								if !add(f.Type()) {
									return false
								}
							case *types.Array:
								return false
							default:
								addWhole(fieldComp(typeKey(t), f.Name(), x.eng.SortOf(f.Type()), isRefType(f.Type())))
							}
						}
						return true
					}
					if add(pt) {
						return
					}
				}
			}
			everything = true
			return
		}
		if top && !inLoop(b) {
			bv := fr.lookup(b, n)
			if bv.T != nil {
				if isMem && bv.T.S == SSlice {
					addRef(comp, SArr(bv.T))
					return
				}
				if bv.T.S.K == KInt {
					// only if the address is a direct field/elem of that ref (not nested emb)
					if fa, ok := addr.(*ssa.FieldAddr); ok && fa.X == b {
						addRef(comp, bv.T)
						return
					}
					if ia, ok := addr.(*ssa.IndexAddr); ok && ia.X == b {
						addRef(comp, bv.T)
						return
					}
				}
			}
		}
		addWhole(comp)
	}
	var handleCall func(c *ssa.CallCommon, top bool, depth int)
	handleCall = func(c *ssa.CallCommon, top bool, depth int) {
		if bi, ok := c.Value.(*ssa.Builtin); ok {
			switch bi.Name() {
			case "copy", "append":
				if len(c.Args) > 0 {
					if sl, ok := c.Args[0].Type().Underlying().(*types.Slice); ok {
						comp := memComp(x.eng.SortOf(sl.Elem()))
						b, _ := base(c.Args[0])
						if al, ok := b.(*ssa.Alloc); ok && inLoop(al) {
							return
						}
						if top && !inLoop(b) && bi.Name() == "copy" {
							if bv := fr.lookup(b, n); bv.T != nil && bv.T.S == SSlice {
								addRef(comp, SArr(bv.T))
								return
							}
						}
						addWhole(comp)
					}
				}
			}
			return
		}
		callee, con := x.resolveCall(c)
		if con != nil {
			// modifies clauses of the contract
			for _, m := range con.Modifies {
				x.modClauseTargets(m, callee, c, con, func(comp string, arg ssa.Value, whole bool) {
					if comp == "*" {
						everything = true
						return
					}
					if !whole && arg != nil && top {
						b, _ := base(arg)
						if al, ok := b.(*ssa.Alloc); ok && inLoop(al) {
							return
						}
						if !inLoop(b) && b == arg {
							bv := fr.lookup(b, n)
							if bv.T != nil && bv.T.S == SSlice {
								addRef(comp, SArr(bv.T))
								return
							}
							if bv.T != nil && bv.T.S.K == KInt {
								addRef(comp, bv.T)
								return
							}
						}
					}
					addWhole(comp)
				})
			}
			if con.Havoc == "all" {
				everything = true
			}
			return
		}
		if callee != nil && x.canInline(callee) && depth < 4 {
			visitFn(callee, depth+1, false)
			return
		}
		if c.IsInvoke() {
			everything = !x.unknownPure
			return
		}
		if top {
			if _, isB := c.Value.(*ssa.Builtin); !isB {
				if fv := fr.lookup(c.Value, n); fv != nil && fv.Fn != nil && depth < 4 {
					visitFn(fv.Fn.Fn, depth+1, false)
					return
				}
			}
		}
		// closure values: try to find MakeClosure
		if mc, ok := c.Value.(*ssa.MakeClosure); ok {
			visitFn(mc.Fn.(*ssa.Function), depth+1, false)
			return
		}
		if x.isPureExternal(c) || x.unknownPure {
			return
		}
		everything = true
	}
	visitInstr := func(in ssa.Instruction, top bool, depth int) {
		switch s := in.(type) {
		case *ssa.Store:
			handleStore(s.Addr, top)
		case *ssa.MapUpdate:
			everything = true
		case *ssa.Call:
			handleCall(s.Common(), top, depth)
		case *ssa.Defer, *ssa.Go:
			everything = true
		}
	}
	visitFn = func(fn *ssa.Function, depth int, top bool) {
		if len(fn.Blocks) == 0 {
			everything = true
			return
		}
		for _, b := range fn.Blocks {
			for _, in := range b.Instrs {
				visitInstr(in, false, depth)
			}
		}
	}
	for _, b := range fr.fn.Blocks {
		if !li.body[b] {
			continue
		}
		for _, in := range b.Instrs {
			visitInstr(in, true, 0)
		}
	}
	if li.spec != nil && len(li.spec.Modifies) > 0 {
		// explicit override: names of Go lvalues
		out = nil
		whole = map[string]bool{}
		everything = false
		for _, name := range li.spec.Modifies {
			if strings.HasPrefix(name, "M$") || strings.HasPrefix(name, "H$") || strings.HasPrefix(name, "G$") || strings.HasPrefix(name, "C$") {
				addWhole(name)
				continue
			}
			env := fr.specEnv(n, n.heap)
			sv := env.lookupName(name)
			if sv == nil {
				panic(fmt.Errorf("contract stale: loop modifies: unknown name %q in %s", name, fr.fn))
			}
			switch {
			case sv.T.S == SSlice:
				el := sv.Ty.Underlying().(*types.Slice).Elem()
				addRef(memComp(x.eng.SortOf(el)), SArr(sv.T))
			default:
				bail("loop modifies %q: unsupported kind", name)
			}
		}
	}
	for _, b := range fr.fn.Blocks {
		if !li.body[b] {
			continue
		}
		for _, in := range b.Instrs {
			if nx, ok := in.(*ssa.Next); ok && nx.IsString {
				addWhole("G$iterpos")
			}
		}
	}
	if everything {
		out = nil
		for _, k := range sortedKeys(n.heap) {
			if x.isImmutableComp(k) {
				continue
			}
			out = append(out, modTarget{comp: k})
		}
		x.eng.Note(fmt.Sprintf("loop %d in %s: whole heap havocked at the loop head (unknown callee inside)", li.ordinal, fr.fn))
	}
	// make sure the components exist in the head heap so havoc applies
	for _, m := range out {
		if _, ok := n.heap[m.comp]; !ok {
			if t0, ok := x.heap0[m.comp]; ok {
				n.heap[m.comp] = t0
			}
		}
	}
	sort.SliceStable(out, func(i, j int) bool { return out[i].comp < out[j].comp })
	return out
}

func (x *Exec) isImmutableComp(name string) bool {
	return strings.HasSuffix(name, "!imm")
}
