package govc

import (
	"os"
	"path/filepath"
	"fmt"
	"go/token"
	"go/types"
	"math/big"
	"strings"

	"golang.org/x/tools/go/ssa"
)

func (x *Exec) embRef(structT types.Type, field string, base *Term) *Term {
	return x.eng.UF("emb$"+ident(typeKey(structT))+"$"+field, SRef, base)
}

func (x *Exec) fieldPlace(structT types.Type, idx int, ref *Term) *Place {
	st := structT.Underlying().(*types.Struct)
	f := st.Field(idx)
	s := x.eng.SortOf(f.Type())
	comp := fieldComp(typeKey(structT), f.Name(), s, isRefType(f.Type()))
	return &Place{Comp: comp, Elem: s, Ref: ref, Ty: f.Type()}
}

// compOfAddr: heap component written through an address-valued SSA value.
func (x *Exec) compOfAddr(addr ssa.Value) (string, bool) {
	switch a := addr.(type) {
	case *ssa.FieldAddr:
		pt, _ := derefType(a.X.Type())
		st := pt.Underlying().(*types.Struct)
		f := st.Field(a.Field)
		// field inside a struct stored by value in an array / other field?
		if inner, ok := a.X.(*ssa.IndexAddr); ok {
			return x.compOfAddr(inner)
		}
		if inner, ok := a.X.(*ssa.FieldAddr); ok {
			if _, isStruct := f.Type().Underlying().(*types.Struct); !isStruct {
				_ = inner
			}
		}
		s := x.eng.SortOf(f.Type())
		if _, isStruct := f.Type().Underlying().(*types.Struct); isStruct {
			return "", false
		}
		return fieldComp(typeKey(pt), f.Name(), s, isRefType(f.Type())), false
	case *ssa.IndexAddr:
		var el types.Type
		switch u := a.X.Type().Underlying().(type) {
		case *types.Slice:
			el = u.Elem()
		case *types.Pointer:
			el = u.Elem().Underlying().(*types.Array).Elem()
		}
		return memComp(x.eng.SortOf(el)), true
	case *ssa.Alloc, *ssa.Parameter, *ssa.FreeVar, *ssa.Phi, *ssa.Call, *ssa.Extract, *ssa.UnOp:
		pt, ok := derefType(addr.Type())
		if !ok {
			return "", false
		}
		switch pt.Underlying().(type) {
		case *types.Struct, *types.Array:
			return "", false // whole-object store: several components
		}
		s := x.eng.SortOf(pt)
		return cellComp(s, isRefType(pt)), false
	case *ssa.Global:
		return "", false
	}
	return "", false
}

func cellComp(s *Sort, isRef bool) string {
	n := "C$" + s.Short()
	if isRef {
		n += "#ref"
	}
	return n
}

func (x *Exec) loadGlobal(heap map[string]*Term, g *ssa.Global) *Term {
	pt := g.Type().(*types.Pointer).Elem()
	s := x.eng.SortOf(pt)
	// package-level variables are modelled as constants: assumed never reassigned after init
	// (checked for the module's own globals by scanning for stores outside init).
	name := "gv$" + ident(g.Pkg.Pkg.Path()+"."+g.Name())
	x.eng.DeclareUF(name, s)
	x.eng.Note("package-level variable " + g.Pkg.Pkg.Path() + "." + g.Name() + " treated as a constant (sentinel errors: non-nil and pairwise distinct)")
	t := App(name, s)
	if isRefType(pt) {
		x.sentinels[name] = t
	}
	return t
}

// ---------- block execution ----------

func (fr *Frame) val(v ssa.Value, n *vnode) *Val { return fr.lookup(v, n) }

func (fr *Frame) term(v ssa.Value, n *vnode) *Term {
	r := fr.lookup(v, n)
	if r.T == nil {
		bail("value %s (%s) has no term in %s", v.Name(), v, fr.fn)
	}
	return r.T
}

func (fr *Frame) execBlock(n *vnode) *exitPoint {
	x := fr.x
	for _, in := range n.b.Instrs {
		switch i := in.(type) {
		case *ssa.Phi, *ssa.DebugRef:
			continue
		case *ssa.If:
			c := fr.term(i.Cond, n)
			for k, e := range n.succs {
				cc := c
				if k == 1 {
					cc = Not(c)
				}
				e.cond = And(n.reach, cc)
				e.heap = n.heap
				if x.prunePaths && fr == x.topFrame && !e.cond.IsFalse() && x.infeasible(e.cond) {
					e.cond = False
				}
			}
			return nil
		case *ssa.Jump:
			for _, e := range n.succs {
				e.cond = n.reach
				e.heap = n.heap
			}
			return nil
		case *ssa.Return:
			ex := &exitPoint{cond: n.reach, heap: n.heap}
			for _, r := range i.Results {
				ex.results = append(ex.results, fr.val(r, n))
			}
			return ex
		case *ssa.Panic:
			fr.explicitPanic(n, i)
			n.dead = true
			return nil
		case *ssa.RunDefers:
			continue
		case *ssa.Store:
			fr.store(n, i)
		case *ssa.MapUpdate:
			m := fr.term(i.Map, n)
			x.vc.Oblige("safety.nilmap", "", n.reach, Neq(m, IntLit(0)), x.pos(i.Pos()), "assignment to entry in nil map")
			if vc, pc, ks, vs, ok := x.mapComps(i.Map.Type()); ok {
				kv, vv := fr.val(i.Key, n), fr.val(i.Value, n)
				if kv.T != nil && vv.T != nil && kv.T.S == ks && vv.T.S == vs {
					fr.frameCheck(n, &Place{Comp: vc, Elem: vs, Ref: m, Idx: IntLit(0)}, i.Pos())
					vals := x.comp(n.heap, vc, SArray(SInt, SArray(ks, vs)))
					pres := x.comp(n.heap, pc, SArray(SInt, SArray(ks, SBool)))
					n.heap[vc] = Store(vals, m, Store(Select(vals, m), kv.T, vv.T))
					n.heap[pc] = Store(pres, m, Store(Select(pres, m), kv.T, True))
					break
				}
				// unmodelled value: forget the contents of all maps of this type
				n.heap[vc] = x.eng.FreshVar(vc, SArray(SInt, SArray(ks, vs)))
				n.heap[pc] = x.eng.FreshVar(pc, SArray(SInt, SArray(ks, SBool)))
			}
			x.eng.Note("map updates on maps with non-basic keys are not modelled (lookups return arbitrary values) in " + fr.fn.String())
		case *ssa.Defer, *ssa.Go, *ssa.Select, *ssa.Send:
			bail("instruction %T in %s", in, fr.fn)
		case ssa.Value:
			v := fr.evalValue(n, i)
			if v != nil {
				n.defs[i] = v
			}
			if n.dead {
				return nil
			}
		default:
			bail("instruction %T in %s", in, fr.fn)
		}
	}
	return nil
}

func (fr *Frame) explicitPanic(n *vnode, p *ssa.Panic) {
	x := fr.x
	// a specified exceptional exit of the function under contract ("panics when C"), else unreachable
	goal := False
	detail := "explicit panic must be unreachable"
	if x.panicsWhen != nil {
		goal = x.panicsWhen
		detail = "explicit panic only under the contract's 'panics when' condition"
	}
	x.vc.Oblige("panics", "", n.reach, goal, x.pos(p.Pos()), detail)
}

func (fr *Frame) store(n *vnode, s *ssa.Store) {
	x := fr.x
	addr := fr.val(s.Addr, n)
	v := fr.val(s.Val, n)
	if addr.P != nil {
		fr.frameCheck(n, addr.P, s.Pos())
		x.writePlace(n.heap, addr.P, x.coerce(v, addr.P.Ty))
		return
	}
	if addr.T == nil {
		bail("store through unknown address in %s", fr.fn)
	}
	pt, _ := derefType(s.Addr.Type())
	fr.storeObject(n, addr.T, pt, x.coerce(v, pt), s.Pos())
}

func (x *Exec) coerce(v *Val, t types.Type) *Term {
	if v.T == nil {
		if v.Fn != nil {
			return x.eng.FreshVar("fnval", SRef)
		}
		bail("value without term stored")
	}
	return v.T
}

func (fr *Frame) storeObject(n *vnode, ref *Term, t types.Type, v *Term, pos token.Pos) {
	x := fr.x
	switch u := t.Underlying().(type) {
	case *types.Struct:
		for i := 0; i < u.NumFields(); i++ {
			f := u.Field(i)
			fv := StructSel(v, i)
			if _, isStruct := f.Type().Underlying().(*types.Struct); isStruct {
				fr.storeObject(n, x.embRef(t, f.Name(), ref), f.Type(), fv, pos)
				continue
			}
			p := x.fieldPlace(t, i, ref)
			fr.frameCheck(n, p, pos)
			x.writePlace(n.heap, p, fv)
		}
	case *types.Array:
		es := x.eng.SortOf(u.Elem())
		comp := memComp(es)
		m := x.comp(n.heap, comp, memSort(es))
		fr.frameCheck(n, &Place{Comp: comp, Elem: es, Ref: ref, Idx: IntLit(0)}, pos)
		n.heap[comp] = x.nameBig(Store(m, ref, v), comp)
	default:
		s := x.eng.SortOf(t)
		p := &Place{Comp: cellComp(s, isRefType(t)), Elem: s, Ref: ref, Ty: t}
		fr.frameCheck(n, p, pos)
		x.writePlace(n.heap, p, v)
	}
}

func (fr *Frame) loadObject(heap map[string]*Term, ref *Term, t types.Type) *Term {
	x := fr.x
	switch u := t.Underlying().(type) {
	case *types.Struct:
		s := x.eng.SortOf(t)
		var fs []*Term
		for i := 0; i < u.NumFields(); i++ {
			f := u.Field(i)
			if _, isStruct := f.Type().Underlying().(*types.Struct); isStruct {
				fs = append(fs, fr.loadObject(heap, x.embRef(t, f.Name(), ref), f.Type()))
				continue
			}
			fs = append(fs, x.readPlace(heap, x.fieldPlace(t, i, ref)))
		}
		return MkStruct(s, fs...)
	case *types.Array:
		es := x.eng.SortOf(u.Elem())
		m := x.comp(heap, memComp(es), memSort(es))
		return Select(m, ref)
	default:
		s := x.eng.SortOf(t)
		return x.readPlace(heap, &Place{Comp: cellComp(s, isRefType(t)), Elem: s, Ref: ref, Ty: t})
	}
}

// frameCheck: a store must target something the contract lets the function modify, or a fresh object.
func (fr *Frame) frameCheck(n *vnode, p *Place, pos token.Pos) {
	x := fr.x
	if x.frameOK == nil {
		return
	}
	g := x.frameOK(p, n.heap)
	if g == nil {
		return
	}
	x.vc.Oblige("frame", "", n.reach, g, x.pos(pos), "store outside the contract's modifies clause: "+p.Comp)
}

func (fr *Frame) evalValue(n *vnode, v ssa.Value) *Val {
	x := fr.x
	switch i := v.(type) {
	case *ssa.Alloc:
		return fr.alloc(n, i)
	case *ssa.BinOp:
		a, b := fr.val(i.X, n), fr.val(i.Y, n)
		return &Val{T: fr.binop(n, i, a, b), Ty: i.Type()}
	case *ssa.UnOp:
		return fr.unop(n, i)
	case *ssa.Convert:
		return fr.convert(n, i)
	case *ssa.ChangeType:
		a := fr.val(i.X, n)
		r := *a
		r.Ty = i.Type()
		return &r
	case *ssa.ChangeInterface:
		a := fr.val(i.X, n)
		r := *a
		r.Ty = i.Type()
		return &r
	case *ssa.MakeInterface:
		return fr.makeInterface(n, i)
	case *ssa.Call:
		return fr.call(n, i, i.Common())
	case *ssa.FieldAddr:
		return fr.fieldAddr(n, i)
	case *ssa.Field:
		a := fr.val(i.X, n)
		ft := i.X.Type().Underlying().(*types.Struct).Field(i.Field).Type()
		return &Val{T: StructSel(a.T, i.Field), Ty: ft}
	case *ssa.IndexAddr:
		return fr.indexAddr(n, i)
	case *ssa.Index:
		return fr.index(n, i)
	case *ssa.Slice:
		return fr.slice(n, i)
	case *ssa.Extract:
		t := fr.val(i.Tuple, n)
		if t.Tup == nil {
			bail("extract from non-tuple in %s", fr.fn)
		}
		return t.Tup[i.Index]
	case *ssa.TypeAssert:
		return fr.typeAssert(n, i)
	case *ssa.MakeClosure:
		fv := &FnVal{Fn: i.Fn.(*ssa.Function)}
		for _, b := range i.Bindings {
			fv.Bindings = append(fv.Bindings, fr.val(b, n))
		}
		return &Val{Fn: fv, T: x.newRef("closure"), Ty: i.Type()}
	case *ssa.MakeSlice:
		ln := fr.term(i.Len, n)
		cp := fr.term(i.Cap, n)
		ln, cp = x.asInt(ln), x.asInt(cp)
		x.vc.Oblige("safety.make", "", n.reach, And(Ge(ln, IntLit(0)), Le(ln, cp)), x.pos(i.Pos()), "makeslice: len out of range")
		x.vc.Assume(Implies(n.reach, And(Ge(ln, IntLit(0)), Le(ln, cp))))
		arr := x.newRef("mk")
		el := i.Type().Underlying().(*types.Slice).Elem()
		es := x.eng.SortOf(el)
		comp := memComp(es)
		m := x.comp(n.heap, comp, memSort(es))
		var zero *Term = &Term{Op: "(as const " + SArray(SInt, es).String() + ")", Args: []*Term{x.zeroOf(el)}, S: SArray(SInt, es)}
		zero = x.zeroRowEcho(zero, es)
		n.heap[comp] = x.nameBig(Store(m, arr, zero), comp)
		return &Val{T: MkSlice(arr, IntLit(0), ln, cp), Ty: i.Type()}
	case *ssa.MakeMap:
		m := x.newRef("map")
		if _, pc, ks, _, ok := x.mapComps(i.Type()); ok {
			// a new map has no entries
			pres := x.comp(n.heap, pc, SArray(SInt, SArray(ks, SBool)))
			empty := &Term{Op: "(as const " + SArray(ks, SBool).String() + ")", Args: []*Term{False}, S: SArray(ks, SBool)}
			n.heap[pc] = Store(pres, m, empty)
		}
		return &Val{T: m, Ty: i.Type()}
	case *ssa.MakeChan:
		bail("channels in %s", fr.fn)
	case *ssa.Lookup:
		a := fr.val(i.X, n)
		if a.T != nil && a.T.S == SStr {
			idx := x.asInt(fr.term(i.Index, n))
			x.vc.Oblige("safety.index", "", n.reach, And(Ge(idx, IntLit(0)), Lt(idx, x.strLen(a.T))), x.pos(i.Pos()), "string index out of range")
			x.vc.Assume(Implies(n.reach, And(Ge(idx, IntLit(0)), Lt(idx, x.strLen(a.T)))))
			x.eng.DeclareUF("strAt", SBV(8), SStr, SInt)
			return &Val{T: App("strAt", SBV(8), a.T, idx), Ty: i.Type()}
		}
		if vc, pc, ks, vs, ok := x.mapComps(i.X.Type()); ok {
			if kv := fr.val(i.Index, n); kv.T != nil && kv.T.S == ks {
				val, present := x.mapLookup(n.heap, vc, pc, ks, vs, a.T, kv.T, i.X.Type().Underlying().(*types.Map).Elem())
				if i.CommaOk {
					return &Val{Tup: []*Val{{T: val, Ty: i.X.Type().Underlying().(*types.Map).Elem()}, {T: present, Ty: types.Typ[types.Bool]}}, Ty: i.Type()}
				}
				return &Val{T: val, Ty: i.Type()}
			}
		}
		x.eng.Note("map lookups with non-basic keys return arbitrary values in " + fr.fn.String())
		return x.freshVal("lookup", i.Type())
	case *ssa.Range:
		// iteration over a map: an opaque iterator, Next yields arbitrary entries.  Over a string:
		// the iterator carries the byte position (ghost component G$iterpos) and Next decodes one
		// code point: a byte below 0x80 is itself, anything else is some rune >= 0x80 taking 1..4 bytes.
		r := &Val{T: x.eng.FreshVar("iter", SRef), Ty: i.Type()}
		if sv := fr.val(i.X, n); sv.T != nil && sv.T.S == SStr {
			itref := x.newRef("iter$" + i.Name())
			m := x.comp(n.heap, "G$iterpos", SArray(SInt, SInt))
			n.heap["G$iterpos"] = Store(m, itref, IntLit(0))
			r.Tup = []*Val{{T: sv.T}, {T: itref}}
		} else {
			x.eng.Note("range over a map is modelled as an arbitrary sequence of entries in " + fr.fn.String())
		}
		return r
	case *ssa.Next:
		tup := i.Type().(*types.Tuple)
		res := &Val{Ty: i.Type()}
		for k := 0; k < tup.Len(); k++ {
			et := tup.At(k).Type()
			if b, ok := et.(*types.Basic); ok && b.Kind() == types.Invalid {
				// unused key or value
				et = types.Typ[types.Int]
				if i.IsString && k == 2 {
					et = types.Typ[types.Rune]
				}
			}
			res.Tup = append(res.Tup, x.freshVal(fmt.Sprintf("next%d", k), et))
		}
		if i.IsString {
			it := fr.val(i.Iter, n)
			if len(it.Tup) == 2 && it.Tup[0].T != nil {
				str, itref := it.Tup[0].T, it.Tup[1].T
				m := x.comp(n.heap, "G$iterpos", SArray(SInt, SInt))
				pos := Select(m, itref)
				ok, idx, r := res.Tup[0].T, res.Tup[1].T, res.Tup[2].T
				sl := x.strLen(str)
				x.vc.Assume(Ge(pos, IntLit(0)))
				x.vc.Assume(Eq(ok, Lt(pos, sl)))
				x.vc.Assume(Implies(ok, Eq(idx, pos)))
				adv := x.eng.FreshVar("runew", SInt)
				if r != nil {
					x.eng.DeclareUF("strAt", SBV(8), SStr, SInt)
					b := BV2Nat(App("strAt", SBV(8), str, pos))
					ri := x.asInt(r)
					x.vc.Assume(Implies(ok, Ite(Lt(b, IntLit(0x80)),
						And(Eq(ri, b), Eq(adv, IntLit(1))),
						And(Ge(ri, IntLit(0x80)), Le(ri, IntLit(0x10FFFF)), Ge(adv, IntLit(1)), Le(adv, IntLit(4)), Le(Add(pos, adv), sl)))))
				} else {
					x.vc.Assume(Implies(ok, And(Ge(adv, IntLit(1)), Le(adv, IntLit(4)), Le(Add(pos, adv), sl))))
				}
				n.heap["G$iterpos"] = Store(m, itref, Ite(ok, Add(pos, adv), pos))
			}
		}
		return res
	case *ssa.SliceToArrayPointer, *ssa.MultiConvert:
		bail("instruction %T in %s", v, fr.fn)
	}
	bail("value instruction %T in %s", v, fr.fn)
	return nil
}

func (x *Exec) asInt(t *Term) *Term {
	if t.S.K == KBV {
		return BV2Nat(t)
	}
	return t
}

func (fr *Frame) alloc(n *vnode, a *ssa.Alloc) *Val {
	x := fr.x
	pt := a.Type().(*types.Pointer).Elem()
	ref := x.newRef(a.Comment + "$" + a.Name())
	fr.initObject(n, ref, pt)
	if pt.String() == "bytes.Buffer" {
		// the zero bytes.Buffer is empty ("The zero value for Buffer is an empty buffer ready to use")
		x.eng.DeclareUF("seqLen", SInt, SInt)
		m := x.comp(n.heap, "G$seq", SArray(SInt, SInt))
		x.vc.Assume(Implies(n.reach, Eq(App("seqLen", SInt, Select(m, ref)), IntLit(0))))
	}
	return &Val{T: ref, Ty: a.Type()}
}

func (fr *Frame) initObject(n *vnode, ref *Term, t types.Type) {
	x := fr.x
	switch u := t.Underlying().(type) {
	case *types.Struct:
		for i := 0; i < u.NumFields(); i++ {
			f := u.Field(i)
			if _, isStruct := f.Type().Underlying().(*types.Struct); isStruct {
				fr.initObject(n, x.embRef(t, f.Name(), ref), f.Type())
				continue
			}
			x.writePlace(n.heap, x.fieldPlace(t, i, ref), x.zeroOf(f.Type()))
		}
	case *types.Array:
		es := x.eng.SortOf(u.Elem())
		comp := memComp(es)
		m := x.comp(n.heap, comp, memSort(es))
		var zero *Term = &Term{Op: "(as const " + SArray(SInt, es).String() + ")", Args: []*Term{x.zeroOf(u.Elem())}, S: SArray(SInt, es)}
		zero = x.zeroRowEcho(zero, es)
		n.heap[comp] = x.nameBig(Store(m, ref, zero), comp)
	default:
		s := x.eng.SortOf(t)
		x.writePlace(n.heap, &Place{Comp: cellComp(s, isRefType(t)), Elem: s, Ref: ref, Ty: t}, x.zeroOf(t))
	}
}

// zeroRowEcho: in opaque-bit mode name the all-zero byte row and state that all its bits are 0.
func (x *Exec) zeroRowEcho(zero *Term, es *Sort) *Term {
	if !(x.opaque["bitAt"] && es.K == KBV && es.W == 8) {
		return zero
	}
	if x.zeroRow != nil {
		return x.zeroRow
	}
	zr := x.eng.FreshVar("zerorow", zero.S)
	x.vc.Assume(App("=", SBool, zr, zero))
	B := Var("B?", SInt)
	q := Forall([]*Term{B}, Not(x.rowBit(zr, B)))
	q.Pats = [][]*Term{{x.rowBit(zr, B)}}
	x.vc.Assume(q)
	x.zeroRow = zr
	return zr
}

func basicOf(t types.Type) *types.Basic {
	b, _ := t.Underlying().(*types.Basic)
	return b
}

func typeRange(b *types.Basic) (*big.Int, *big.Int) {
	w := intWidth(b)
	lo := new(big.Int).Neg(new(big.Int).Lsh(big.NewInt(1), uint(w-1)))
	hi := new(big.Int).Sub(new(big.Int).Lsh(big.NewInt(1), uint(w-1)), big.NewInt(1))
	return lo, hi
}

func (fr *Frame) overflow(n *vnode, r *Term, t types.Type, pos token.Pos, what string) {
	x := fr.x
	b := basicOf(t)
	if b == nil || !isSigned(b) {
		return
	}
	lo, hi := typeRange(b)
	g := And(Ge(r, IntBig(lo)), Le(r, IntBig(hi)))
	x.vc.Oblige("safety.overflow", "", n.reach, g, x.pos(pos), "signed "+what+" stays in range of "+b.Name())
	x.vc.Assume(Implies(n.reach, g))
}

func (fr *Frame) binop(n *vnode, i *ssa.BinOp, av, bv *Val) *Term {
	x := fr.x
	a, b := av.T, bv.T
	if a == nil || b == nil {
		// comparison of function values / places with nil
		bail("binop on non-term values in %s", fr.fn)
	}
	op := i.Op
	// comparisons
	switch op {
	case token.EQL, token.NEQ:
		var r *Term
		if a.S == SSlice || b.S == SSlice {
			// slice == nil
			// (Go only allows comparing a slice with nil: one operand is the nil literal)
			s := a
			if a.S == SSlice && SArr(a).IsIntLit() && (b.S != SSlice || !SArr(b).IsIntLit()) {
				s = b
			} else if a.S != SSlice {
				s = b
			}
			r = Eq(SArr(s), IntLit(0))
		} else if a.S == SStr {
			r = x.strEq(a, b)
		} else if a.S.K == KFP {
			r = App("fp.eq", SBool, a, b)
		} else {
			if !SameSort(a.S, b.S) {
				bail("== on different sorts %s / %s in %s", a.S, b.S, fr.fn)
			}
			r = Eq(a, b)
		}
		if op == token.NEQ {
			return Not(r)
		}
		return r
	}
	xt := i.X.Type()
	bx := basicOf(xt)
	if a.S.K == KInt && (op == token.SHL || op == token.SHR) {
		return fr.shiftInt(n, i, a, b)
	}
	if x.wrapSigned && a.S.K == KInt && b.S.K == KInt && bx != nil && isSigned(bx) {
		// exact two's-complement semantics through a bit-vector detour (contract option wrap-signed)
		w := intWidth(bx)
		lo, hi := typeRange(bx)
		full := IntBig(new(big.Int).Lsh(big.NewInt(1), uint(w)))
		wrap1 := func(sum *Term) *Term { // operands in range: at most one wrap
			return Ite(Gt(sum, IntBig(hi)), Sub(sum, full), Ite(Lt(sum, IntBig(lo)), Add(sum, full), sum))
		}
		switch op {
		case token.ADD:
			if Int2BV(a, w).Op != "int2bv" && Int2BV(b, w).Op != "int2bv" {
				return signedOfBV(BVBin("bvadd", Int2BV(a, w), Int2BV(b, w))) // values that came from bit-vectors stay there
			}
			return wrap1(Add(a, b))
		case token.SUB:
			if Int2BV(a, w).Op != "int2bv" && Int2BV(b, w).Op != "int2bv" {
				return signedOfBV(BVBin("bvsub", Int2BV(a, w), Int2BV(b, w)))
			}
			return wrap1(Sub(a, b))
		case token.MUL:
			if Int2BV(a, w).Op != "int2bv" && Int2BV(b, w).Op != "int2bv" {
				return signedOfBV(BVBin("bvmul", Int2BV(a, w), Int2BV(b, w)))
			}
			half := IntBig(new(big.Int).Lsh(big.NewInt(1), uint(w-1)))
			return Sub(EMod(Add(Mul(a, b), half), full), half)
		}
	}
	if a.S.K == KInt && b.S.K == KInt {
		switch op {
		case token.LSS:
			return Lt(a, b)
		case token.LEQ:
			return Le(a, b)
		case token.GTR:
			return Gt(a, b)
		case token.GEQ:
			return Ge(a, b)
		case token.ADD:
			r := Add(a, b)
			fr.overflow(n, r, xt, i.Pos(), "addition")
			return r
		case token.SUB:
			r := Sub(a, b)
			fr.overflow(n, r, xt, i.Pos(), "subtraction")
			return r
		case token.MUL:
			r := Mul(a, b)
			fr.overflow(n, r, xt, i.Pos(), "multiplication")
			return r
		case token.QUO, token.REM:
			x.vc.Oblige("safety.div", "", n.reach, Neq(b, IntLit(0)), x.pos(i.Pos()), "integer divide by zero")
			x.vc.Assume(Implies(n.reach, Neq(b, IntLit(0))))
			q := x.truncDiv(a, b)
			if !b.IsIntLit() {
				// symbolic divisor: name quotient and remainder and state the non-negative case directly
				// (SMT div/mod), which is what the solvers handle well
				qv := x.eng.FreshVar("quo", SInt)
				rv := x.eng.FreshVar("rem", SInt)
				x.vc.Assume(Eq(qv, q))
				x.vc.Assume(Eq(rv, Sub(a, Mul(b, qv))))
				x.vc.Assume(Implies(And(Ge(a, IntLit(0)), Gt(b, IntLit(0))), And(Eq(qv, App("div", SInt, a, b)), Eq(rv, App("mod", SInt, a, b)))))
				if op == token.QUO {
					fr.overflow(n, qv, xt, i.Pos(), "division")
					return qv
				}
				return rv
			}
			if op == token.QUO {
				fr.overflow(n, q, xt, i.Pos(), "division")
				return q
			}
			return Sub(a, Mul(b, q))
		case token.AND:
			// x & (2^k-1)  ==  x mod 2^k   (two's complement, any sign)
			if m, ok := maskConst(b); ok {
				return EMod(a, m)
			}
			if m, ok := maskConst(a); ok {
				return EMod(b, m)
			}
		case token.SHL, token.SHR:
			return fr.shiftInt(n, i, a, b)
		}
		if op == token.AND || op == token.OR || op == token.XOR || op == token.AND_NOT {
			// exact through a 64-bit two's-complement detour
			w := 64
			if bx != nil {
				w = intWidth(bx)
			}
			x.eng.Note("signed bitwise operator in " + fr.fn.String() + " encoded through int2bv")
			ab, bb := Int2BV(a, w), Int2BV(b, w)
			var r *Term
			switch op {
			case token.AND:
				r = BVBin("bvand", ab, bb)
			case token.OR:
				r = BVBin("bvor", ab, bb)
			case token.XOR:
				r = BVBin("bvxor", ab, bb)
			case token.AND_NOT:
				r = BVBin("bvand", ab, BVNot(bb))
			}
			return signedOfBV(r)
		}
		bail("signed operator %s in %s", op, fr.fn)
	}
	if a.S.K == KBV {
		// shifts may have a count of another sort
		if op == token.SHL || op == token.SHR {
			sop := "bvshl"
			if op == token.SHR {
				sop = "bvlshr"
			}
			if b.S.K == KInt {
				x.vc.Oblige("safety.shift", "", n.reach, Ge(b, IntLit(0)), x.pos(i.Pos()), "negative shift amount")
				x.vc.Assume(Implies(n.reach, Ge(b, IntLit(0))))
				return ShiftByInt(sop, a, b)
			}
			w := a.S.W
			if b.IsBVLit() {
				if b.Val.Cmp(big.NewInt(int64(w))) >= 0 {
					return BVLit(0, w)
				}
				return BVBin(sop, a, BVLit(b.Val.Uint64(), w))
			}
			bw := b.S.W
			if bw <= w {
				return BVBin(sop, a, BVResize(b, w)) // SMT shift by >= w already yields 0
			}
			return Ite(BVCmp("bvuge", b, BVLit(uint64(w), bw)), BVLit(0, w), BVBin(sop, a, BVResize(b, w)))
		}
		if b.S.K != KBV || b.S.W != a.S.W {
			bail("bit-vector operands of different sorts in %s", fr.fn)
		}
		switch op {
		case token.ADD:
			r := BVBin("bvadd", a, b)
			if b.IsBVLit() && !a.IsBVLit() && a.S.W >= 32 && b.Val.BitLen() <= 16 {
				// hint linking the unsigned value of x+c to that of x (the solvers are weak on bv2nat)
				w := a.S.W
				full := IntBig(new(big.Int).Lsh(big.NewInt(1), uint(w)))
				sum := Add(App("bv2nat", SInt, a), IntBig(b.Val))
				rv := x.nameBig(r, "bvsum")
				if rv == r && r.Op != "var" {
					nv := x.eng.FreshVar("bvsum", r.S)
					x.vc.Assume(App("=", SBool, nv, r))
					rv = nv
				}
				x.vc.Assume(Eq(App("bv2nat", SInt, rv), Ite(Lt(sum, full), sum, Sub(sum, full))))
				return rv
			}
			return r
		case token.SUB:
			return BVBin("bvsub", a, b)
		case token.MUL:
			return BVBin("bvmul", a, b)
		case token.QUO, token.REM:
			x.vc.Oblige("safety.div", "", n.reach, Neq(b, BVLit(0, b.S.W)), x.pos(i.Pos()), "integer divide by zero")
			x.vc.Assume(Implies(n.reach, Neq(b, BVLit(0, b.S.W))))
			if op == token.QUO {
				return BVBin("bvudiv", a, b)
			}
			return BVBin("bvurem", a, b)
		case token.AND:
			return BVBin("bvand", a, b)
		case token.OR:
			return BVBin("bvor", a, b)
		case token.XOR:
			return BVBin("bvxor", a, b)
		case token.AND_NOT:
			return BVBin("bvand", a, BVNot(b))
		case token.LSS:
			return BVCmp("bvult", a, b)
		case token.LEQ:
			return BVCmp("bvule", a, b)
		case token.GTR:
			return BVCmp("bvugt", a, b)
		case token.GEQ:
			return BVCmp("bvuge", a, b)
		}
	}
	if a.S.K == KBool {
		switch op {
		case token.AND, token.LAND:
			return And(a, b)
		case token.OR, token.LOR:
			return Or(a, b)
		}
	}
	if a.S.K == KFP {
		switch op {
		case token.ADD:
			return App("fp.add", a.S, App("RNE", nil), a, b)
		case token.SUB:
			return App("fp.sub", a.S, App("RNE", nil), a, b)
		case token.MUL:
			return App("fp.mul", a.S, App("RNE", nil), a, b)
		case token.QUO:
			return App("fp.div", a.S, App("RNE", nil), a, b)
		case token.LSS:
			return App("fp.lt", SBool, a, b)
		case token.LEQ:
			return App("fp.leq", SBool, a, b)
		case token.GTR:
			return App("fp.gt", SBool, a, b)
		case token.GEQ:
			return App("fp.geq", SBool, a, b)
		}
	}
	if a.S == SStr && op == token.ADD {
		return x.strCat(a, b)
	}
	bail("operator %s on sort %s in %s", op, a.S, fr.fn)
	return nil
}

func (x *Exec) strEq(a, b *Term) *Term { return Eq(a, b) }

func signedOfBV(r *Term) *Term {
	w := r.S.W
	n := BV2Nat(r)
	half := IntBig(new(big.Int).Lsh(big.NewInt(1), uint(w-1)))
	full := IntBig(new(big.Int).Lsh(big.NewInt(1), uint(w)))
	if n.IsIntLit() {
		if n.Val.Cmp(half.Val) < 0 {
			return n
		}
		return IntBig(new(big.Int).Sub(n.Val, full.Val))
	}
	return Ite(Lt(n, half), n, Sub(n, full))
}

func maskConst(t *Term) (*Term, bool) {
	if !t.IsIntLit() || t.Val.Sign() < 0 {
		return nil, false
	}
	p := new(big.Int).Add(t.Val, big.NewInt(1))
	if p.BitLen() > 0 && new(big.Int).And(p, t.Val).Sign() == 0 {
		return IntBig(p), true
	}
	return nil, false
}

func (x *Exec) truncDiv(a, b *Term) *Term {
	// Go's truncated division from SMT's Euclidean div
	if b.IsIntLit() && b.Val.Sign() > 0 {
		if a.IsIntLit() {
			return IntBig(new(big.Int).Quo(a.Val, b.Val))
		}
		q := EDiv(a, b)
		// for a >= 0 identical; for a < 0: -((-a) div b)
		return Ite(Ge(a, IntLit(0)), q, Neg(EDiv(Neg(a), b)))
	}
	sgn := func(t *Term) *Term { return Ge(t, IntLit(0)) }
	abs := func(t *Term) *Term { return Ite(sgn(t), t, Neg(t)) }
	q := App("div", SInt, abs(a), abs(b))
	return Ite(Eq(sgn(a), sgn(b)), q, Neg(q))
}

func (fr *Frame) shiftInt(n *vnode, i *ssa.BinOp, a, b *Term) *Term {
	x := fr.x
	cnt := b
	if cnt.S.K == KBV {
		cnt = BV2Nat(cnt)
	}
	bx := basicOf(i.X.Type())
	w := 64
	if bx != nil {
		w = intWidth(bx)
	}
	if by := basicOf(i.Y.Type()); by != nil && isSigned(by) {
		x.vc.Oblige("safety.shift", "", n.reach, Ge(cnt, IntLit(0)), x.pos(i.Pos()), "negative shift amount")
		x.vc.Assume(Implies(n.reach, Ge(cnt, IntLit(0))))
	}
	if x.wrapSigned && i.Op == token.SHL {
		av := Int2BV(a, w)
		return signedOfBV(ShiftByInt("bvshl", av, cnt))
	}
	if cnt.IsIntLit() {
		k := cnt.Val.Int64()
		if k >= int64(w) {
			if i.Op == token.SHL {
				return IntLit(0)
			}
			return Ite(Ge(a, IntLit(0)), IntLit(0), IntLit(-1))
		}
		p := IntBig(new(big.Int).Lsh(big.NewInt(1), uint(k)))
		if i.Op == token.SHL {
			r := Mul(a, p)
			fr.overflow(n, r, i.X.Type(), i.Pos(), "left shift")
			return r
		}
		return EDiv(a, p)
	}
	// symbolic count: ite chain
	var r *Term
	if i.Op == token.SHL {
		r = IntLit(0)
	} else {
		r = Ite(Ge(a, IntLit(0)), IntLit(0), IntLit(-1))
	}
	for k := w - 1; k >= 0; k-- {
		p := IntBig(new(big.Int).Lsh(big.NewInt(1), uint(k)))
		var v *Term
		if i.Op == token.SHL {
			v = Mul(a, p)
		} else {
			v = EDiv(a, p)
		}
		r = Ite(App("=", SBool, cnt, IntLit(int64(k))), v, r)
	}
	if i.Op == token.SHL {
		fr.overflow(n, r, i.X.Type(), i.Pos(), "left shift")
	}
	return r
}

func (fr *Frame) unop(n *vnode, i *ssa.UnOp) *Val {
	x := fr.x
	switch i.Op {
	case token.NOT:
		return &Val{T: Not(fr.term(i.X, n)), Ty: i.Type()}
	case token.SUB:
		a := fr.term(i.X, n)
		if a.S.K == KInt {
			// exact: -MinInt wraps to MinInt
			r := Neg(a)
			if b := basicOf(i.Type()); b != nil && isSigned(b) {
				lo, _ := typeRange(b)
				r = Ite(Eq(a, IntBig(lo)), IntBig(lo), Neg(a))
			}
			return &Val{T: r, Ty: i.Type()}
		}
		if a.S.K == KBV {
			return &Val{T: BVNeg(a), Ty: i.Type()}
		}
		if a.S.K == KFP {
			return &Val{T: App("fp.neg", a.S, a), Ty: i.Type()}
		}
	case token.XOR:
		a := fr.term(i.X, n)
		if a.S.K == KBV {
			return &Val{T: BVNot(a), Ty: i.Type()}
		}
		if a.S.K == KInt {
			return &Val{T: Sub(Neg(a), IntLit(1)), Ty: i.Type()}
		}
	case token.MUL:
		// load
		if g, ok := i.X.(*ssa.Global); ok {
			return &Val{T: x.loadGlobal(n.heap, g), Ty: i.Type()}
		}
		a := fr.val(i.X, n)
		if a.P != nil {
			lv := x.readPlace(n.heap, a.P)
			if lv != nil && lv.S == SInt && isRefType(i.Type()) {
				// references are non-negative (0 is nil); array rows of pointers share the Int memory component
				x.vc.Assume(Implies(n.reach, Ge(lv, IntLit(0))))
			}
			return &Val{T: lv, Ty: i.Type()}
		}
		if a.T == nil {
			bail("load through unknown pointer in %s", fr.fn)
		}
		x.vc.Oblige("safety.nil", "", n.reach, Neq(a.T, IntLit(0)), x.pos(i.Pos()), "nil pointer dereference")
		x.vc.Assume(Implies(n.reach, Neq(a.T, IntLit(0))))
		r := &Val{T: fr.loadObject(n.heap, a.T, i.Type()), Ty: i.Type()}
		if a.Fn != nil {
			r.Fn = a.Fn
		}
		return r
	}
	bail("unary %s in %s", i.Op, fr.fn)
	return nil
}

func (fr *Frame) convert(n *vnode, i *ssa.Convert) *Val {
	x := fr.x
	a := fr.val(i.X, n)
	from, to := basicOf(i.X.Type()), basicOf(i.Type())
	if from == nil || to == nil {
		// []byte(string) etc.
		if a.T != nil && a.T.S == SStr && x.eng.SortOf(i.Type()) == SSlice {
			arr := x.newRef("strbytes")
			ln := x.strLen(a.T)
			return &Val{T: MkSlice(arr, IntLit(0), ln, ln), Ty: i.Type()}
		}
		if a.T != nil && a.T.S == SSlice && x.eng.SortOf(i.Type()) == SStr {
			s := x.eng.FreshVar("str", SStr)
			x.vc.Assume(Eq(x.strLen(s), SLen(a.T)))
			return &Val{T: s, Ty: i.Type()}
		}
		if a.T != nil && SameSort(a.T.S, x.eng.SortOf(i.Type())) {
			return &Val{T: a.T, Ty: i.Type()}
		}
		bail("conversion %s -> %s in %s", i.X.Type(), i.Type(), fr.fn)
	}
	t := a.T
	fi, ti := from.Info(), to.Info()
	switch {
	case fi&types.IsInteger != 0 && ti&types.IsInteger != 0:
		switch {
		case t.S.K == KInt && isSigned(to):
			if intWidth(to) < intWidth(from) {
				lo, hi := typeRange(to)
				g := And(Ge(t, IntBig(lo)), Le(t, IntBig(hi)))
				x.vc.Oblige("safety.overflow", "", n.reach, g, x.pos(i.Pos()), "narrowing conversion to "+to.Name()+" keeps the value")
				x.vc.Assume(Implies(n.reach, g))
			}
			return &Val{T: t, Ty: i.Type()}
		case t.S.K == KInt && isUnsigned(to):
			w := intWidth(to)
			if t.IsIntLit() {
				return &Val{T: BVBig(t.Val, w), Ty: i.Type()}
			}
			// exact: value modulo 2^w.  Uses int2bv on a symbolic term.
			r := Int2BV(t, w)
			if r.Op == "int2bv" {
				// hint: inside the unsigned range the conversion is the identity (solvers are weak on int2bv)
				rv := x.eng.FreshVar("i2bv", r.S)
				x.vc.Assume(App("=", SBool, rv, r))
				full := IntBig(new(big.Int).Lsh(big.NewInt(1), uint(w)))
				x.vc.Assume(Implies(And(Ge(t, IntLit(0)), Lt(t, full)), Eq(App("bv2nat", SInt, rv), t)))
				r = rv
			}
			return &Val{T: r, Ty: i.Type()}
		case t.S.K == KBV && isUnsigned(to):
			return &Val{T: BVResize(t, intWidth(to)), Ty: i.Type()}
		case t.S.K == KBV && isSigned(to):
			w := intWidth(to)
			if t.S.W < w {
				return &Val{T: BV2Nat(t), Ty: i.Type()}
			}
			return &Val{T: signedOfBV(BVResize(t, w)), Ty: i.Type()}
		}
	case fi&types.IsInteger != 0 && ti&types.IsFloat != 0:
		s := x.eng.SortOf(i.Type())
		if t.S.K == KInt {
			return &Val{T: &Term{Op: fmt.Sprintf("(_ to_fp %d %d)", s.W, s.W2), Args: []*Term{App("RNE", nil), App("to_real", nil, t)}, S: s}, Ty: i.Type()}
		}
		return &Val{T: &Term{Op: fmt.Sprintf("(_ to_fp_unsigned %d %d)", s.W, s.W2), Args: []*Term{App("RNE", nil), t}, S: s}, Ty: i.Type()}
	case fi&types.IsFloat != 0 && ti&types.IsFloat != 0:
		s := x.eng.SortOf(i.Type())
		if SameSort(s, t.S) {
			return &Val{T: t, Ty: i.Type()}
		}
		return &Val{T: &Term{Op: fmt.Sprintf("(_ to_fp %d %d)", s.W, s.W2), Args: []*Term{App("RNE", nil), t}, S: s}, Ty: i.Type()}
	case fi&types.IsFloat != 0 && ti&types.IsInteger != 0:
		// an unspecified but fixed function of the float (same operand, same result), within the target range
		x.eng.Note("float to integer conversion is an uninterpreted function of its operand (in range of the target type) in " + fr.fn.String())
		srt := x.eng.SortOf(i.Type())
		name := "f2i$" + t.S.Short() + "$" + srt.Short()
		x.eng.DeclareUF(name, srt, t.S)
		r := App(name, srt, t)
		x.vc.Assume(x.typeConstraint(r, i.Type()))
		return &Val{T: r, Ty: i.Type()}
	case fi&types.IsString != 0 && ti&types.IsString != 0:
		return &Val{T: t, Ty: i.Type()}
	case fi&types.IsInteger != 0 && ti&types.IsString != 0:
		// string(rune): the UTF-8 encoding, 1..4 bytes; one byte holding the value itself below 0x80
		rv := x.freshVal("runestr", i.Type())
		iv := x.asInt(t)
		ln := x.strLen(rv.T)
		x.eng.DeclareUF("strAt", SBV(8), SStr, SInt)
		x.vc.Assume(And(Ge(ln, IntLit(1)), Le(ln, IntLit(4)),
			Implies(And(Ge(iv, IntLit(0)), Lt(iv, IntLit(128))), And(Eq(ln, IntLit(1)), Eq(BV2Nat(App("strAt", SBV(8), rv.T, IntLit(0))), iv)))))
		return rv
	}
	if to.Kind() == types.UnsafePointer || from.Kind() == types.UnsafePointer {
		bail("unsafe.Pointer conversion in %s", fr.fn)
	}
	bail("conversion %s -> %s in %s", i.X.Type(), i.Type(), fr.fn)
	return nil
}

func (fr *Frame) makeInterface(n *vnode, i *ssa.MakeInterface) *Val {
	x := fr.x
	a := fr.val(i.X, n)
	xt := i.X.Type()
	if _, isPtr := xt.Underlying().(*types.Pointer); isPtr && a.T != nil {
		x.vc.Assume(Implies(Neq(a.T, IntLit(0)), Eq(x.dynType(a.T), x.typeIDOf(xt))))
		fr.bridge(n, a.T, xt)
		return &Val{T: a.T, Ty: i.Type(), Fn: a.Fn}
	}
	// boxed value
	r := x.newRef("box")
	x.vc.Assume(Eq(x.dynType(r), x.typeIDOf(xt)))
	if a.T != nil {
		bn := "box$" + a.T.S.Short()
		x.eng.DeclareUF(bn, a.T.S, SInt)
		x.vc.Assume(Eq(App(bn, a.T.S, r), a.T))
	}
	return &Val{T: r, Ty: i.Type(), Fn: a.Fn}
}

// bridge: a concrete object with a type spec becomes an abstract BitSource: its abstract views
// are defined by the type's view clauses, Valid by its invariant (DESIGN §3.5).
func (fr *Frame) bridge(n *vnode, ref *Term, ptrT types.Type) {
	x := fr.x
	ts, _ := x.typeSpecOf(ptrT)
	if ts == nil {
		return
	}
	sv := &SV{T: ref, Ty: ptrT}
	env := &SpecEnv{x: x, heap: n.heap, bound: map[string]*SV{}, pkg: fr.fn.Pkg.Pkg}
	x.eng.DeclareUF("Valid", SBool, SInt)
	inv := x.validOf(env, sv, nil)
	x.vc.Assume(Implies(n.reach, Eq(App("Valid", SBool, ref), inv)))
	for _, v := range ts.Views {
		c := env.child()
		c.bound[v.Params[0]] = sv
		var vars []*Term
		var args []*Expr
		args = append(args, &Expr{Kind: "ident", Name: v.Params[0]})
		for _, p := range v.Params[1:] {
			bv := Var(p+"?", SInt)
			vars = append(vars, bv)
			c.bound[p] = &SV{T: bv}
			args = append(args, &Expr{Kind: "ident", Name: p})
		}
		body := c.eval(v.Body.E)
		abs := x.abstractView(c, v.Fn, &SV{T: ref}, &Expr{Kind: "call", Name: v.Fn, Args: args})
		if v.Fn == "cursor" || v.Fn == "fpos" {
			// state-dependent: equality at this program point only
			x.vc.Assume(Implies(n.reach, Eq(abs.T, body.T)))
			continue
		}
		bt := body.T
		if abs.T.S.K == KInt && bt.S.K == KBV {
			bt = BV2Nat(bt)
		}
		x.vc.Assume(Implies(n.reach, Forall(vars, Eq(abs.T, bt))))
	}
}

func (fr *Frame) fieldAddr(n *vnode, i *ssa.FieldAddr) *Val {
	x := fr.x
	a := fr.val(i.X, n)
	pt, _ := derefType(i.X.Type())
	st := pt.Underlying().(*types.Struct)
	f := st.Field(i.Field)
	if a.P != nil {
		// field of a struct stored by value inside an array / field
		p := *a.P
		p.Sub = append(append([]int{}, p.Sub...), i.Field)
		p.Ty = f.Type()
		return &Val{P: &p, Ty: i.Type()}
	}
	if a.T == nil {
		bail("field address of unknown base in %s", fr.fn)
	}
	x.vc.Oblige("safety.nil", "", n.reach, Neq(a.T, IntLit(0)), x.pos(i.Pos()), "nil pointer dereference (field "+f.Name()+")")
	x.vc.Assume(Implies(n.reach, Neq(a.T, IntLit(0))))
	if _, isStruct := f.Type().Underlying().(*types.Struct); isStruct {
		return &Val{T: x.embRef(pt, f.Name(), a.T), Ty: i.Type()}
	}
	return &Val{P: x.fieldPlace(pt, i.Field, a.T), Ty: i.Type()}
}

func (fr *Frame) indexAddr(n *vnode, i *ssa.IndexAddr) *Val {
	x := fr.x
	a := fr.val(i.X, n)
	idx := x.asInt(fr.term(i.Index, n))
	switch u := i.X.Type().Underlying().(type) {
	case *types.Slice:
		g := And(Ge(idx, IntLit(0)), Lt(idx, SLen(a.T)))
		x.vc.Oblige("safety.index", "", n.reach, g, x.pos(i.Pos()), "index out of range")
		x.vc.Assume(Implies(n.reach, g))
		es := x.eng.SortOf(u.Elem())
		return &Val{P: &Place{Comp: memComp(es), Elem: es, Ref: SArr(a.T), Idx: ElemIdx(SOff(a.T), idx, es), Ty: u.Elem()}, Ty: i.Type()}
	case *types.Pointer:
		arr := u.Elem().Underlying().(*types.Array)
		g := And(Ge(idx, IntLit(0)), Lt(idx, IntLit(arr.Len())))
		x.vc.Oblige("safety.index", "", n.reach, g, x.pos(i.Pos()), "index out of range")
		x.vc.Assume(Implies(n.reach, g))
		es := x.eng.SortOf(arr.Elem())
		if a.T == nil {
			bail("index address of unknown array pointer in %s", fr.fn)
		}
		return &Val{P: &Place{Comp: memComp(es), Elem: es, Ref: a.T, Idx: idx, Ty: arr.Elem()}, Ty: i.Type()}
	}
	bail("IndexAddr on %s in %s", i.X.Type(), fr.fn)
	return nil
}

func (fr *Frame) index(n *vnode, i *ssa.Index) *Val {
	x := fr.x
	a := fr.val(i.X, n)
	idx := x.asInt(fr.term(i.Index, n))
	switch u := i.X.Type().Underlying().(type) {
	case *types.Array:
		g := And(Ge(idx, IntLit(0)), Lt(idx, IntLit(u.Len())))
		x.vc.Oblige("safety.index", "", n.reach, g, x.pos(i.Pos()), "index out of range")
		x.vc.Assume(Implies(n.reach, g))
		return &Val{T: Select(a.T, idx), Ty: i.Type()}
	case *types.Basic: // string
		g := And(Ge(idx, IntLit(0)), Lt(idx, x.strLen(a.T)))
		x.vc.Oblige("safety.index", "", n.reach, g, x.pos(i.Pos()), "string index out of range")
		x.vc.Assume(Implies(n.reach, g))
		x.eng.DeclareUF("strAt", SBV(8), SStr, SInt)
		return &Val{T: App("strAt", SBV(8), a.T, idx), Ty: i.Type()}
	}
	bail("Index on %s in %s", i.X.Type(), fr.fn)
	return nil
}

func (fr *Frame) slice(n *vnode, i *ssa.Slice) *Val {
	x := fr.x
	a := fr.val(i.X, n)
	opt := func(v ssa.Value) *Term {
		if v == nil {
			return nil
		}
		return x.asInt(fr.term(v, n))
	}
	lo, hi, mx := opt(i.Low), opt(i.High), opt(i.Max)
	if lo == nil {
		lo = IntLit(0)
	}
	switch u := i.X.Type().Underlying().(type) {
	case *types.Slice:
		if hi == nil {
			hi = SLen(a.T)
		}
		cp := SCap(a.T)
		lim := cp
		if mx != nil {
			lim = mx
		}
		g := And(Ge(lo, IntLit(0)), Le(lo, hi), Le(hi, lim), Le(lim, cp))
		x.vc.Oblige("safety.slice", "", n.reach, g, x.pos(i.Pos()), "slice bounds out of range")
		x.vc.Assume(Implies(n.reach, g))
		return &Val{T: MkSlice(SArr(a.T), Add(SOff(a.T), lo), Sub(hi, lo), Sub(lim, lo)), Ty: i.Type()}
	case *types.Pointer:
		arr := u.Elem().Underlying().(*types.Array)
		al := IntLit(arr.Len())
		if hi == nil {
			hi = al
		}
		lim := al
		if mx != nil {
			lim = mx
		}
		g := And(Ge(lo, IntLit(0)), Le(lo, hi), Le(hi, lim), Le(lim, al))
		x.vc.Oblige("safety.slice", "", n.reach, g, x.pos(i.Pos()), "slice bounds out of range")
		x.vc.Assume(Implies(n.reach, g))
		if a.T == nil {
			bail("slice of unknown array pointer in %s", fr.fn)
		}
		return &Val{T: MkSlice(a.T, lo, Sub(hi, lo), Sub(lim, lo)), Ty: i.Type()}
	case *types.Basic: // string
		sl := x.strLen(a.T)
		if hi == nil {
			hi = sl
		}
		g := And(Ge(lo, IntLit(0)), Le(lo, hi), Le(hi, sl))
		x.vc.Oblige("safety.slice", "", n.reach, g, x.pos(i.Pos()), "string slice bounds out of range")
		x.vc.Assume(Implies(n.reach, g))
		x.eng.DeclareUF("substr", SStr, SStr, SInt, SInt)
		r := App("substr", SStr, a.T, lo, hi)
		x.vc.Assume(Implies(n.reach, Eq(x.strLen(r), Sub(hi, lo))))
		return &Val{T: r, Ty: i.Type()}
	}
	bail("Slice on %s in %s", i.X.Type(), fr.fn)
	return nil
}

func (fr *Frame) typeAssert(n *vnode, i *ssa.TypeAssert) *Val {
	x := fr.x
	a := fr.val(i.X, n)
	var ok *Term
	if _, isIface := i.AssertedType.Underlying().(*types.Interface); isIface {
		x.eng.DeclareUF("implements", SBool, SInt, SInt)
		ok = And(Neq(a.T, IntLit(0)), App("implements", SBool, x.dynType(a.T), x.typeIDOf(i.AssertedType)))
	} else {
		ok = And(Neq(a.T, IntLit(0)), Eq(x.dynType(a.T), x.typeIDOf(i.AssertedType)))
	}
	var res *Val
	s := x.eng.SortOf(i.AssertedType)
	if s.K == KInt && isRefType(i.AssertedType) {
		res = &Val{T: a.T, Ty: i.AssertedType, Fn: a.Fn}
	} else {
		bn := "box$" + s.Short()
		x.eng.DeclareUF(bn, s, SInt)
		res = &Val{T: App(bn, s, a.T), Ty: i.AssertedType}
		x.vc.Assume(x.typeConstraint(res.T, i.AssertedType)) // a boxed value is a well-formed value of its type
	}
	if i.CommaOk {
		zero := x.zeroOf(i.AssertedType)
		rv := &Val{T: Ite(ok, res.T, zero), Ty: i.AssertedType, Fn: res.Fn}
		return &Val{Tup: []*Val{rv, {T: ok, Ty: types.Typ[types.Bool]}}, Ty: i.Type()}
	}
	x.vc.Oblige("safety.assert", "", n.reach, ok, x.pos(i.Pos()), "type assertion to "+i.AssertedType.String())
	x.vc.Assume(Implies(n.reach, ok))
	return res
}

func shortFn(f *ssa.Function) string {
	s := f.String()
	s = strings.ReplaceAll(s, "github.com/wader/fq/", "")
	return s
}

// Maps with basic-typed keys: two heap components per (key sort, value sort),
// MPV$k$v[map][key] = value and MPP$k$v[map][key] = present.  The nil map has no entries.
func (x *Exec) mapComps(t types.Type) (vc, pc string, ks, vs *Sort, ok bool) {
	mt, isMap := t.Underlying().(*types.Map)
	if !isMap {
		return
	}
	if _, basic := mt.Key().Underlying().(*types.Basic); !basic {
		return
	}
	defer func() {
		if recover() != nil {
			ok = false
		}
	}()
	ks, vs = x.eng.SortOf(mt.Key()), x.eng.SortOf(mt.Elem())
	if ks == nil || vs == nil || ks.K == KFP {
		return
	}
	x.zeroOf(mt.Elem())
	return "MPV$" + ks.Short() + "$" + vs.Short(), "MPP$" + ks.Short() + "$" + vs.Short(), ks, vs, true
}

func (x *Exec) mapLookup(heap map[string]*Term, vc, pc string, ks, vs *Sort, m, key *Term, elem types.Type) (val, present *Term) {
	vals := x.comp(heap, vc, SArray(SInt, SArray(ks, vs)))
	pres := x.comp(heap, pc, SArray(SInt, SArray(ks, SBool)))
	present = And(Neq(m, IntLit(0)), Select(Select(pres, m), key))
	val = Ite(present, Select(Select(vals, m), key), x.zeroOf(elem))
	return
}

// strCat: string concatenation as an uninterpreted function, kept in a canonical left-nested
// form (so that regrouping a + (b + c) does not change the term) with the length law assumed.
func (x *Exec) strCat(a, b *Term) *Term {
	x.eng.DeclareUF("strcat", SStr, SStr, SStr)
	var leaves []*Term
	var walk func(t *Term)
	walk = func(t *Term) {
		if t.Op == "strcat" && len(t.Args) == 2 {
			walk(t.Args[0])
			walk(t.Args[1])
			return
		}
		leaves = append(leaves, t)
	}
	walk(a)
	walk(b)
	r := leaves[0]
	for _, l := range leaves[1:] {
		n := App("strcat", SStr, r, l)
		x.vc.Assume(Eq(x.strLen(n), Add(x.strLen(r), x.strLen(l))))
		r = n
	}
	return r
}

// infeasible: a quick solver query "assumptions so far and this branch condition"; only a definite
// unsat prunes the branch (sound: an infeasible path contributes no behaviour).
func (x *Exec) infeasible(cond *Term) bool {
	dir, err := os.MkdirTemp("", "govc-prune-")
	if err != nil {
		return false
	}
	defer os.RemoveAll(dir)
	o := &Obligation{Name: "prune", Kind: "prune", Goal: Not(cond), NAssume: len(x.vc.Assumes)}
	file := filepath.Join(dir, "q.smt2")
	if os.WriteFile(file, []byte(x.eng.script(x.vc, o, nil, nil)), 0o644) != nil {
		return false
	}
	res, _, _ := runSolver("z3-new", file, 1)
	return res == "unsat"
}
