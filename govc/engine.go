package govc

// Engine: loads /repo with go/packages, builds go/ssa, reads contract files.

import (
	"fmt"
	"go/types"
	"os"
	"path/filepath"
	"sort"
	"strings"

	"golang.org/x/tools/go/packages"
	"golang.org/x/tools/go/ssa"
	"golang.org/x/tools/go/ssa/ssautil"
)

type Engine struct {
	RepoDir   string
	Prog      *ssa.Program
	Pkgs      map[string]*ssa.Package
	PPkgs     map[string]*packages.Package
	Contracts map[string]*Contract  // by ssa function String()
	Ifaces    map[string]*Contract  // by "(pkg.Iface).Method"
	Types     map[string]*TypeSpec  // by "pkgpath.T"
	SpecFuncs map[string]*SpecFunc
	Axioms    []*Clause
	Files     []*ContractFile
	Order     []string // contract keys in file order (functions to verify)

	structSorts map[string]*Sort
	ufuncs      map[string]*UFunc
	fresh       int
	Notes       map[string]bool // assumptions / abstraction notes collected during runs
	usedTrusted map[string]bool
	skipVacuity bool
	alias       map[string]string // contract name -> current source name (rename recovery, loop clauses only)
}

type UFunc struct {
	Name string
	Args []*Sort
	Res  *Sort
}

func (e *Engine) Note(s string) {
	e.Notes[s] = true
}

// UF registers (once) and applies an uninterpreted function.
func (e *Engine) UF(name string, res *Sort, args ...*Term) *Term {
	if _, ok := e.ufuncs[name]; !ok {
		u := &UFunc{Name: name, Res: res}
		for _, a := range args {
			u.Args = append(u.Args, a.S)
		}
		e.ufuncs[name] = u
	}
	return App(name, res, args...)
}

func (e *Engine) DeclareUF(name string, res *Sort, args ...*Sort) {
	if _, ok := e.ufuncs[name]; !ok {
		e.ufuncs[name] = &UFunc{Name: name, Res: res, Args: args}
	}
}

func Load(repo string, patterns []string, specDirs []string) (*Engine, error) {
	cfg := &packages.Config{
		Mode: packages.LoadAllSyntax | packages.NeedModule,
		Dir:  repo,
		Env: append(os.Environ(), "GOFLAGS=-mod=mod", "GOPROXY=off", "GOSUMDB=off", "GOTOOLCHAIN=local"),
	}
	pkgs, err := packages.Load(cfg, patterns...)
	if err != nil {
		return nil, err
	}
	nerr := 0
	packages.Visit(pkgs, nil, func(p *packages.Package) {
		for _, e := range p.Errors {
			if nerr < 10 {
				fmt.Fprintf(os.Stderr, "load error: %v\n", e)
			}
			nerr++
		}
	})
	if nerr > 0 {
		return nil, fmt.Errorf("%d package load errors (does /repo compile?)", nerr)
	}
	prog, _ := ssautil.AllPackages(pkgs, ssa.GlobalDebug|ssa.InstantiateGenerics)
	prog.Build()
	e := &Engine{RepoDir: repo, Prog: prog, Pkgs: map[string]*ssa.Package{}, PPkgs: map[string]*packages.Package{},
		Contracts: map[string]*Contract{}, Ifaces: map[string]*Contract{}, Types: map[string]*TypeSpec{},
		SpecFuncs: map[string]*SpecFunc{}, structSorts: map[string]*Sort{}, ufuncs: map[string]*UFunc{}, Notes: map[string]bool{}, usedTrusted: map[string]bool{}}
	for _, p := range prog.AllPackages() {
		e.Pkgs[p.Pkg.Path()] = p
	}
	packages.Visit(pkgs, nil, func(p *packages.Package) { e.PPkgs[p.PkgPath] = p })

	// contract files inside the repo: <pkgdir>/verif_contracts.go for every loaded module package
	var files [][2]string
	packages.Visit(pkgs, nil, func(p *packages.Package) {
		if p.Module == nil || !p.Module.Main || len(p.GoFiles) == 0 {
			return
		}
		dir := filepath.Dir(p.GoFiles[0])
		cf := filepath.Join(dir, "verif_contracts.go")
		if _, err := os.Stat(cf); err == nil {
			files = append(files, [2]string{cf, p.PkgPath})
		}
	})
	sort.Slice(files, func(i, j int) bool { return files[i][0] < files[j][0] })
	for _, d := range specDirs {
		ms, _ := filepath.Glob(filepath.Join(d, "*.contracts"))
		sort.Strings(ms)
		for _, m := range ms {
			files = append(files, [2]string{m, ""})
		}
	}
	for _, f := range files {
		cf, err := ParseContractFile(f[0], f[1])
		if err != nil {
			return nil, err
		}
		e.Files = append(e.Files, cf)
		if err := e.register(cf); err != nil {
			return nil, err
		}
	}
	return e, nil
}

// FindFunc resolves a contract key to an ssa function.
func (e *Engine) FindFunc(pkgPath, key string) *ssa.Function {
	// full key?
	cands := []string{key}
	if pkgPath != "" {
		if i := strings.Index(key, "."); i >= 0 && !strings.Contains(key, "/") && !strings.HasPrefix(key, "(") {
			t, m := key[:i], key[i+1:]
			cands = append(cands, fmt.Sprintf("(%s.%s).%s", pkgPath, t, m), fmt.Sprintf("(*%s.%s).%s", pkgPath, t, m))
		}
		cands = append(cands, pkgPath+"."+key)
	}
	for _, c := range cands {
		if f := e.funcByString(c); f != nil {
			return f
		}
	}
	return nil
}

var funcIndex map[string]*ssa.Function

func (e *Engine) funcByString(s string) *ssa.Function {
	if funcIndex == nil {
		funcIndex = map[string]*ssa.Function{}
		for f := range ssautil.AllFunctions(e.Prog) {
			funcIndex[f.String()] = f
		}
	}
	return funcIndex[s]
}

func (e *Engine) register(cf *ContractFile) error {
	for _, c := range cf.Contracts {
		switch c.Kind {
		case "func", "assume":
			variant := ""
			if i := variantSep(c.Key); i >= 0 {
				// "Func#variant": an additional contract verified against the same body (for example a
				// safety-only contract without preconditions); call sites use the plain contract
				variant = c.Key[i:]
				c.Key = c.Key[:i]
			}
			f := e.FindFunc(cf.PkgPath, c.Key)
			if f == nil {
				if c.Kind == "assume" {
					// assumed contract for a function that is not linked into the loaded program: ignore
					continue
				}
				if i := strings.Index(c.Key, "["); i > 0 && e.FindFunc(cf.PkgPath, c.Key[:i]) != nil {
					// contract on an instance of a generic function that the loaded packages do not
					// instantiate (partial load): skipped; the check command loads every package and
					// reports a function that is in its baseline but no longer present
					e.Note("contract on " + c.Key + " skipped: not instantiated by the loaded packages")
					continue
				}
				return fmt.Errorf("%s: contract stale: no function %q in package %s", cf.Path, c.Key, cf.PkgPath)
			}
			k := f.String() + variant
			if _, dup := e.Contracts[k]; dup {
				return fmt.Errorf("%s: duplicate contract for %s", cf.Path, k)
			}
			e.Contracts[k] = c
			c.Key = k
			if c.Kind == "func" && !c.Trusted {
				e.Order = append(e.Order, k)
			}
		case "lemma":
			k := "lemma:" + c.Key
			e.Contracts[k] = c
			c.Key = k
			e.Order = append(e.Order, k)
		case "iface":
			// key: Iface.Method  (package-relative) or full "(pkg.Iface).Method"
			k := c.Key
			if !strings.HasPrefix(k, "(") {
				i := strings.Index(k, ".")
				if i < 0 {
					return fmt.Errorf("%s: iface key %q", cf.Path, k)
				}
				pp := cf.PkgPath
				name := k[:i]
				if j := strings.LastIndex(name, "/"); j >= 0 || pp == "" {
					// e.g. io.Reader.Read in a spec dir file: "io.Reader.Read"
				}
				if pp == "" {
					// form pkg.Iface.Method
					parts := strings.Split(k, ".")
					if len(parts) < 3 {
						return fmt.Errorf("%s: iface key %q needs pkg.Iface.Method", cf.Path, k)
					}
					pp = strings.Join(parts[:len(parts)-2], ".")
					k = fmt.Sprintf("(%s.%s).%s", pp, parts[len(parts)-2], parts[len(parts)-1])
				} else {
					k = fmt.Sprintf("(%s.%s).%s", pp, k[:i], k[i+1:])
				}
			}
			e.Ifaces[k] = c
			c.Key = k
		}
	}
	for _, t := range cf.Types {
		n := t.Name
		if !strings.Contains(n, ".") || cf.PkgPath != "" && !strings.Contains(n, "/") {
			n = cf.PkgPath + "." + t.Name
		}
		e.Types[n] = t
		t.Name = n
	}
	for _, f := range cf.Funcs {
		e.SpecFuncs[f.Name] = f
	}
	e.Axioms = append(e.Axioms, cf.Axioms...)
	return nil
}

// ---------- Go types -> sorts ----------

func isSigned(b *types.Basic) bool {
	switch b.Kind() {
	case types.Int, types.Int8, types.Int16, types.Int32, types.Int64, types.UntypedInt, types.UntypedRune:
		return true
	}
	return false
}

func intWidth(b *types.Basic) int {
	switch b.Kind() {
	case types.Int8, types.Uint8:
		return 8
	case types.Int16, types.Uint16:
		return 16
	case types.Int32, types.Uint32:
		return 32
	case types.Int, types.Uint, types.Int64, types.Uint64, types.Uintptr, types.UntypedInt, types.UntypedRune:
		return 64
	}
	return 0
}

func isUnsigned(b *types.Basic) bool {
	switch b.Kind() {
	case types.Uint, types.Uint8, types.Uint16, types.Uint32, types.Uint64, types.Uintptr:
		return true
	}
	return false
}

type unsupported struct{ msg string }

func (u unsupported) Error() string { return "outside-subset: " + u.msg }

func bail(format string, args ...any) {
	panic(unsupported{fmt.Sprintf(format, args...)})
}

func (e *Engine) SortOf(t types.Type) *Sort {
	switch u := t.Underlying().(type) {
	case *types.Basic:
		switch {
		case u.Kind() == types.Bool || u.Kind() == types.UntypedBool:
			return SBool
		case isSigned(u):
			return SInt
		case isUnsigned(u):
			return SBV(intWidth(u))
		case u.Kind() == types.String || u.Kind() == types.UntypedString:
			return SStr
		case u.Kind() == types.Float32:
			return SFP(8, 24)
		case u.Kind() == types.Float64 || u.Kind() == types.UntypedFloat:
			return SFP(11, 53)
		case u.Kind() == types.UnsafePointer:
			return SRef
		case u.Kind() == types.UntypedNil:
			return SRef
		}
		bail("basic type %s", u)
	case *types.Pointer, *types.Interface, *types.Map, *types.Chan, *types.Signature:
		return SRef
	case *types.Slice:
		return SSlice
	case *types.Struct:
		return e.structSort(t, u)
	case *types.Array:
		return SArray(SInt, e.SortOf(u.Elem()))
	case *types.Tuple:
		bail("tuple sort")
	}
	bail("type %s", t)
	return nil
}

func typeKey(t types.Type) string {
	if n, ok := t.(*types.Named); ok {
		if n.Obj().Pkg() != nil {
			return n.Obj().Pkg().Path() + "." + n.Obj().Name()
		}
		return n.Obj().Name()
	}
	if a, ok := t.(*types.Alias); ok {
		return typeKey(types.Unalias(a))
	}
	return t.String()
}

func ident(s string) string {
	r := strings.NewReplacer("/", "_", ".", "_", "*", "P", " ", "", "(", "", ")", "", "[", "_", "]", "_", "{", "", "}", "", ";", "_", ",", "_", "-", "_")
	s = r.Replace(s)
	s = strings.TrimPrefix(s, "github_com_wader_fq_")
	return s
}

func (e *Engine) structSort(t types.Type, u *types.Struct) *Sort {
	k := typeKey(t)
	if s, ok := e.structSorts[k]; ok {
		return s
	}
	s := &Sort{K: KNamed, Name: "S_" + ident(k)}
	e.structSorts[k] = s
	for i := 0; i < u.NumFields(); i++ {
		f := u.Field(i)
		s.Fields = append(s.Fields, SField{Name: f.Name(), S: e.SortOf(f.Type())})
	}
	return s
}

func (e *Engine) Fresh(hint string) string {
	e.fresh++
	return fmt.Sprintf("%s!%d", hint, e.fresh)
}

func (e *Engine) FreshVar(hint string, s *Sort) *Term { return Var(e.Fresh(hint), s) }

// variantSep: position of the '#' that separates a variant name ("F#safety"); go/ssa names package
// initialisers "init#1", so a '#' followed by a digit belongs to the function name.
func variantSep(key string) int {
	for i := 0; i < len(key); i++ {
		if key[i] == '#' && !(i+1 < len(key) && key[i+1] >= '0' && key[i+1] <= '9') {
			return i
		}
	}
	return -1
}
