package govc

// Top level: verify one function against its contract.

import (
	"sort"
	"regexp"
	"fmt"
	"go/types"
	"math/big"
	"runtime/debug"
	"strings"
	"time"

	"golang.org/x/tools/go/ssa"
)

type FuncResult struct {
	Key      string
	Short    string
	Obls     []*Obligation
	Err      string // outside-subset / contract stale / internal
	ErrKind  string
	Cases    int
	Seconds  float64
	Contract *Contract
	Notes    []string
	BareLoops int
}

type splitChoice struct {
	sp  *SplitSpec
	val int64
}

func (e *Engine) GenFunc(key string) (vcs []*VC, res *FuncResult) {
	con := e.Contracts[key]
	fnKey := key
	if i := variantSep(key); i >= 0 {
		fnKey = key[:i]
	}
	fn := e.funcByString(fnKey)
	res = &FuncResult{Key: key, Contract: con}
	if fn != nil {
		res.Short = shortFn(fn)
	}
	start := time.Now()
	defer func() {
		res.Seconds = time.Since(start).Seconds()
		if r := recover(); r != nil {
			switch er := r.(type) {
			case unsupported:
				res.Err, res.ErrKind = er.Error(), "outside-subset"
			case staleErr:
				res.Err, res.ErrKind = er.Error(), "stale"
			default:
				res.Err, res.ErrKind = fmt.Sprintf("internal error: %v\n%s", r, debug.Stack()), "internal"
			}
		}
	}()
	if con != nil && con.Kind == "lemma" {
		res.Short = key
		res.Cases = 1
		vc := e.lemmaVC(con)
		res.Obls = append(res.Obls, vc.Obls...)
		vcs = append(vcs, vc)
		return
	}
	if fn == nil || con == nil {
		res.Err, res.ErrKind = "contract stale: function not found: "+key, "stale"
		return
	}
	// enumerate split cases
	cases := [][]splitChoice{{}}
	for _, sp := range con.Splits {
		var next [][]splitChoice
		for _, c := range cases {
			for v := sp.Lo; v <= sp.Hi; v++ {
				cc := append(append([]splitChoice{}, c...), splitChoice{sp, v})
				next = append(next, cc)
			}
		}
		cases = next
	}
	res.Cases = len(cases)
	for ci, c := range cases {
		// vacuity probes are sampled for split functions (first, middle, last case): the hypotheses
		// have the same shape in every case
		e.skipVacuity = len(cases) > 8 && !(ci == 0 || ci == len(cases)/2 || ci == len(cases)-1)
		vc := e.verifyCase(fn, con, c)
		res.Obls = append(res.Obls, vc.Obls...)
		vcs = append(vcs, vc)
		if vc.BareLoops > res.BareLoops {
			res.BareLoops = vc.BareLoops
		}
	}
	if len(con.Splits) > 0 {
		// residual case: everything outside the declared split ranges, verified symbolically
		vc := e.verifyCase(fn, con, []splitChoice{{sp: nil, val: 0}})
		res.Obls = append(res.Obls, vc.Obls...)
		vcs = append(vcs, vc)
	}
	return
}

func caseName(c []splitChoice) string {
	var parts []string
	for _, s := range c {
		if s.sp == nil {
			return "other"
		}
		parts = append(parts, fmt.Sprintf("%s=%d", strings.ReplaceAll(s.sp.Text, " ", ""), s.val))
	}
	return strings.Join(parts, ",")
}

type funcSetup struct {
	x      *Exec
	vc     *VC
	fr     *Frame
	params []*Val
	preEnv *SpecEnv
}

func (e *Engine) setup(fn *ssa.Function, con *Contract, choice []splitChoice) *funcSetup {
	vc := &VC{Eng: e, Fn: fn, counts: map[string]int{}, Case: caseName(choice)}
	x := &Exec{eng: e, vc: vc, heap0: map[string]*Term{}, top0: Var("top0", SInt), callSeqs: map[string]int{}, sentinels: map[string]*Term{}}
	x.modeBV = con.Mode == "bv"
	vc.X = x
	IntDefs = map[string]*Term{}
	x.wrapSigned = con.Opts["wrap-signed"] != ""
	x.unknownPure = con.Opts["unknown-calls-pure"] != ""
	x.noInline = con.Opts["no-inline"] != ""
	x.prunePaths = con.Opts["prune-paths"] != ""
	x.vc.NoSafety = con.Opts["no-safety"] != ""
	x.vc.COI = con.Opts["cone-of-influence"] != ""
	x.assumeCalleePre = con.Opts["assume-callee-pre"] != ""
	x.opaque = map[string]bool{}
	for _, n := range strings.Split(con.Opts["opaque"], ",") {
		if n = strings.TrimSpace(n); n != "" {
			x.opaque[n] = true
		}
	}
	vc.Assume(Ge(x.top0, IntLit(0)))
	var params []*Val
	for pi, p := range fn.Params {
		s := e.SortOf(p.Type())
		pname := p.Name()
		if pname == "_" || pname == "" {
			pname = fmt.Sprintf("blank$%d", pi)
		}
		var t *Term = Var(pname, s)
		for _, ch := range choice {
			sp := ch.sp
			if sp == nil {
				continue
			}
			if sp.Mod > 0 {
				if sp.E.Args[0].Kind == "ident" && sp.E.Args[0].Name == p.Name() {
					q := Var(p.Name()+"$q", SInt)
					t = Add(Mul(IntLit(sp.Mod), q), IntLit(ch.val))
				}
			} else if sp.E.Kind == "ident" && sp.E.Name == p.Name() {
				if s.K == KBV {
					t = BVBig(big.NewInt(ch.val), s.W)
				} else {
					t = IntLit(ch.val)
				}
			} else if sp.E.Kind == "field" && sp.E.Args[0].Kind == "ident" && sp.E.Args[0].Name == p.Name() && len(s.Fields) > 0 {
				// split on a field of a struct-valued parameter
				fs := make([]*Term, len(s.Fields))
				for fi, f := range s.Fields {
					fs[fi] = StructSel(t, fi)
					if f.Name == sp.E.Name {
						if f.S.K == KBV {
							fs[fi] = BVBig(big.NewInt(ch.val), f.S.W)
						} else {
							fs[fi] = IntLit(ch.val)
						}
					}
				}
				t = MkStruct(s, fs...)
			}
		}
		vc.Assume(x.typeConstraint(t, p.Type()))
		vc.Assume(x.existing(t, p.Type()))
		if con.SafetyOnly && strings.HasSuffix(con.Key, "#sweep") {
			if _, isPtr := p.Type().Underlying().(*types.Pointer); isPtr {
				// jq values and receivers handed to registered functions are never nil pointers
				vc.Assume(Neq(t, IntLit(0)))
				e.Note("sweep contracts assume pointer-typed arguments (receivers, *big.Int values) are non-nil")
			}
		}
		params = append(params, &Val{T: t, Ty: p.Type()})
		vc.Inputs = append(vc.Inputs, InputVar{Name: p.Name(), T: t, Ty: p.Type()})
	}
	var free []*Val
	for _, fv := range fn.FreeVars {
		v := x.freshVal("free$"+fv.Name(), fv.Type())
		vc.Assume(x.existing(v.T, fv.Type()))
		if _, isPtr := fv.Type().Underlying().(*types.Pointer); isPtr && v.T != nil {
			vc.Assume(Neq(v.T, IntLit(0))) // a captured variable is referenced through its (non-nil) address
		}
		free = append(free, v)
	}
	fr := x.newFrame(fn, nil, params, free, con)
	x.topFrame = fr
	heap := map[string]*Term{}
	pre := fr.specEnvEntry(heap)
	return &funcSetup{x: x, vc: vc, fr: fr, params: params, preEnv: pre}
}

// specEnvEntry: names = parameters (entry values), receiver alias "this".
func (fr *Frame) specEnvEntry(heap map[string]*Term) *SpecEnv {
	m := map[string]*SV{}
	for i, p := range fr.fn.Params {
		sv := &SV{T: fr.params[i].T, Ty: p.Type()}
		m[p.Name()] = sv
		if i == 0 && fr.fn.Signature.Recv() != nil {
			m["this"] = sv
		}
	}
	for i, p := range fr.fn.FreeVars {
		// a captured variable: the name denotes the variable (its current value), not its cell;
		// struct-typed variables stay references (field access auto-dereferences)
		m[p.Name()] = fr.freeVarSV(p, fr.free[i], heap)
	}
	var pkg *types.Package
	if fr.fn.Pkg != nil {
		pkg = fr.fn.Pkg.Pkg
	} else if fr.fn.Origin() != nil && fr.fn.Origin().Pkg != nil {
		pkg = fr.fn.Origin().Pkg.Pkg
	} else if fr.fn.Parent() != nil && fr.fn.Parent().Pkg != nil {
		pkg = fr.fn.Parent().Pkg.Pkg
	}
	return &SpecEnv{x: fr.x, heap: heap, bound: map[string]*SV{}, pkg: pkg, names: func(s string) *SV { return m[s] }}
}

// specEnv at a node inside the body: source-level variable names resolve to SSA values.
func (fr *Frame) specEnv(n *vnode, heap map[string]*Term) *SpecEnv {
	entry := fr.specEnvEntry(fr.entryHeap)
	curHeap := heap
	var lookup func(f *Frame, s string) *SV
	lookup = func(f *Frame, s string) *SV {
		heap := curHeap
		if f.extraNames != nil {
			if v, ok := f.extraNames[s]; ok {
				return &SV{T: v.T, Ty: v.Ty}
			}
		}
		if f == fr {
			if a, ok := fr.x.eng.alias[s]; ok {
				s = a
			}
		}
		if s == "_i" && f == fr {
			// index about to be visited by the range loop whose head is this block
			for _, in := range n.b.Instrs {
				if phi, ok := in.(*ssa.Phi); ok && (phi.Comment == "rangeindex" || phi.Comment == "rangeint.iter") {
					v := f.lookup(phi, n)
					if phi.Comment == "rangeindex" {
						return &SV{T: Add(v.T, IntLit(1)), Ty: phi.Type()}
					}
					return &SV{T: v.T, Ty: phi.Type()}
				}
				if nx, ok := in.(*ssa.Next); ok && nx.IsString {
					// range over a string: the byte position about to be decoded
					if it := f.lookup(nx.Iter, n); it != nil && len(it.Tup) == 2 {
						m := f.x.comp(heap, "G$iterpos", SArray(SInt, SInt))
						return &SV{T: Select(m, it.Tup[1].T), Ty: types.Typ[types.Int]}
					}
				}
			}
			return nil
		}
		cands := f.names[s]
		// prefer a phi of the current block, then unique dominating value
		var pick ssa.Value
		for _, c := range cands {
			// a variable captured by reference is its cell: the name reads the cell's content in the
			// heap of the environment (SSA temporaries loaded from / stored to it are not the variable)
			if fv, ok := c.(*ssa.FreeVar); ok {
				if pt, ok := fv.Type().Underlying().(*types.Pointer); ok {
					switch pt.Elem().Underlying().(type) {
					case *types.Struct, *types.Array:
					default:
						pick = fv
					}
				}
			}
		}
		if f == fr && pick == nil {
			for _, c := range cands {
				if phi, ok := c.(*ssa.Phi); ok && phi.Block() == n.b && phi.Comment == s {
					pick = phi
				}
			}
		}
		if pick == nil {
			var live []ssa.Value
			for _, c := range cands {
				switch cv := c.(type) {
				case *ssa.Parameter, *ssa.FreeVar:
					live = append(live, c)
				case ssa.Instruction:
					if f == fr && cv.Block() != nil && cv.Block() != n.b && cv.Block().Dominates(n.b) {
						live = append(live, c)
					} else if f == fr && cv.Block() == n.b {
						// a local defined earlier in this very block (cut-point clauses): usable once it
						// has been executed
						if vv, isVal := c.(ssa.Value); isVal {
							if _, done := n.defs[vv]; done {
								live = append(live, c)
							}
						}
					}
				}
			}
			// if a phi at a dominating loop head carries the name, it wins over its inputs
			for _, c := range live {
				if phi, ok := c.(*ssa.Phi); ok && phi.Comment == s {
					pick = c
				}
			}
			if pick == nil && len(live) > 0 {
				// Alloc'd (address-taken) variables: the Alloc itself
				for _, c := range live {
					if _, ok := c.(*ssa.Alloc); ok {
						pick = c
					}
				}
				if pick == nil {
					if len(live) == 1 {
						pick = live[0]
					} else {
						// several dominating definitions (re-assignments before the loop): take the last in block order
						pick = live[len(live)-1]
					}
				}
			}
		}
		if pick == nil {
			if f.parent != nil {
				return nil
			}
			return nil
		}
		var v *Val
		if f == fr {
			v = f.lookup(pick, n)
		} else {
			switch pv := pick.(type) {
			case *ssa.Parameter, *ssa.FreeVar:
				v = f.lookup(pv, nil)
			default:
				return nil
			}
		}
		ty := pick.Type()
		if al, ok := pick.(*ssa.Alloc); ok {
			// address-taken local: the name denotes the variable, i.e. the pointee
			pt := al.Type().(*types.Pointer).Elem()
			switch pt.Underlying().(type) {
			case *types.Struct:
				return &SV{T: v.T, Ty: al.Type()} // field access auto-derefs
			case *types.Array:
				return &SV{T: v.T, Ty: al.Type()}
			default:
				return &SV{T: fr.loadObject(heap, v.T, pt), Ty: pt}
			}
		}
		if v.T == nil {
			return nil
		}
		if fv, ok := pick.(*ssa.FreeVar); ok {
			return f.freeVarSV(fv, v, heap)
		}
		return &SV{T: v.T, Ty: ty}
	}
	env := &SpecEnv{x: fr.x, heap: heap, bound: map[string]*SV{}, pkg: entry.pkg, old: entry}
	mk := func(h map[string]*Term) func(s string) *SV {
		return func(s string) *SV {
			saved := curHeap
			curHeap = h
			defer func() { curHeap = saved }()
			for f := fr; f != nil; f = f.parent {
				if v := lookup(f, s); v != nil {
					return v
				}
				if s == "this" && f.fn.Signature.Recv() != nil {
					return &SV{T: f.params[0].T, Ty: f.fn.Params[0].Type()}
				}
			}
			return nil
		}
	}
	env.names = mk(heap)
	env.rebind = mk
	return env
}

func (e *Engine) verifyCase(fn *ssa.Function, con *Contract, choice []splitChoice) *VC {
	su := e.setup(fn, con, choice)
	x, vc, fr := su.x, su.vc, su.fr
	pre := su.preEnv
	e.globalAxioms(x)
	// refinement: interface contract clauses
	var ifaceCons []*Contract
	for _, r := range con.Refines {
		ic := e.findIface(fn, r)
		if ic == nil {
			stale("refines %s: no such interface contract", r)
		}
		ifaceCons = append(ifaceCons, ic)
	}
	ifaceEnv := func(ic *Contract, base *SpecEnv, results []*Val) *SpecEnv {
		// map the interface contract's parameter names by position
		m := map[string]*SV{}
		names := ic.Params
		all := append([]string{"this"}, names...)
		for i, p := range fn.Params {
			if i < len(all) {
				m[all[i]] = &SV{T: fr.params[i].T, Ty: p.Type()}
			}
		}
		if results != nil {
			rn := ic.Results
			for i, r := range results {
				if i < len(rn) {
					m[rn[i]] = &SV{T: r.T, Ty: fn.Signature.Results().At(i).Type()}
				}
			}
			if len(results) == 1 {
				m["result"] = &SV{T: results[0].T, Ty: fn.Signature.Results().At(0).Type()}
			}
		}
		c := *base
		c.names = func(s string) *SV { return m[s] }
		c.bound = map[string]*SV{}
		return &c
	}
	for _, ic := range ifaceCons {
		ie := ifaceEnv(ic, pre, nil)
		for _, r := range ic.Requires {
			vc.Assume(ie.evalBool(r.E))
		}
	}
	for _, r := range con.Requires {
		vc.Assume(pre.evalBool(r.E))
	}
	if len(choice) == 1 && choice[0].sp == nil {
		var outs []*Term
		for _, sp := range con.Splits {
			v := pre.evalInt(sp.E)
			outs = append(outs, Or(Lt(v, IntLit(sp.Lo)), Gt(v, IntLit(sp.Hi))))
		}
		vc.Assume(Or(outs...))
	}
	for _, r := range con.Assumes {
		vc.Assume(pre.evalBool(r.E))
		e.Note("unchecked entry assumption of " + fn.String() + ": " + r.Text)
	}
	vc.PreN = len(vc.Assumes)
	residual := len(choice) == 1 && choice[0].sp == nil || e.skipVacuity
	if (!con.SafetyOnly || len(con.Requires) > 0) && !residual {
		o := vc.Oblige("pre-sat", "pre-sat", True, False, x.pos(fn.Pos()), "precondition is satisfiable (vacuity guard; expected: sat)")
		o.Result, o.Solver, o.Folded = "", "", false
	}
	// specified panics
	if len(con.Panics) > 0 {
		var ps []*Term
		for _, p := range con.Panics {
			ps = append(ps, pre.evalBool(p.E))
		}
		x.panicsWhen = Or(ps...)
	}
	// frame
	x.frameOK = e.frameChecker(x, fr, con, pre)
	if rf := con.Opts["region-from"]; rf != "" {
		// region verification: start at the block holding the named call; everything computed before it
		// is arbitrary (of its type) except for the stated region assumptions
		fr.restrictToRegion(rf)
		e.Note("region verification of " + fn.String() + ": only the code from the call to " + rf + " to the exits is verified; the entry preconditions are assumed to hold there for the entry heap, values computed earlier are arbitrary")
		fr.onEntry = func(n *vnode) {
			env := fr.specEnv(n, n.heap)
			for _, r := range con.RegionAssumes {
				vc.Assume(env.evalBool(r.E))
				e.Note("unchecked region-start assumption of " + fn.String() + ": " + r.Text)
			}
		}
	}
	exits := fr.run(True, pre.heap)
	if len(exits) == 0 {
		return vc
	}
	type exitGroup struct {
		reach   *Term
		heap    map[string]*Term
		results []*Val
		suffix  string
	}
	var groups []*exitGroup
	var allCs []*Term
	for _, ex := range exits {
		allCs = append(allCs, ex.cond)
	}
	if con.Opts["split-exits"] != "" || con.Opts["split-exits"] == "" && false {
		for i, ex := range exits {
			groups = append(groups, &exitGroup{reach: ex.cond, heap: ex.heap, results: ex.results, suffix: fmt.Sprintf(".x%d", i)})
		}
	} else {
		edges := make([]*vedge, len(exits))
		for i, ex := range exits {
			edges[i] = &vedge{cond: ex.cond, heap: ex.heap}
		}
		g := &exitGroup{reach: Or(allCs...), heap: x.mergeHeaps(edges)}
		for r := 0; r < len(exits[0].results); r++ {
			vals := make([]*Val, len(exits))
			for i, ex := range exits {
				vals[i] = ex.results[r]
			}
			if len(exits) == 1 {
				g.results = append(g.results, vals[0])
			} else {
				g.results = append(g.results, x.mergeVals(edges, vals))
			}
		}
		groups = []*exitGroup{g}
	}
	if !residual {
		// vacuity guard: a normal exit must be reachable under all hypotheses collected on the way
		o := vc.Oblige("vacuity", "vacuity.exit", True, Not(Or(allCs...)), x.pos(fn.Pos()), "some normal exit is reachable under the accumulated hypotheses (expected: sat)")
		o.Result, o.Solver, o.Folded = "", "", false
	}
	rn := resultNames(con, fn.Signature)
	short := func(ic *Contract) string {
		s := ic.Key
		if k := strings.LastIndex(s, "/"); k >= 0 {
			s = s[k+1:]
		}
		return s
	}
	nAssumeBase := len(vc.Assumes)
	for _, g := range groups {
		results, reach := g.results, g.reach
		post := fr.specEnvEntry(g.heap)
		post.old = pre
		base := post.names
		withResults := func(base func(string) *SV) func(string) *SV {
			return func(s string) *SV {
				for i, n := range rn {
					if n == s && i < len(results) {
						return &SV{T: results[i].T, Ty: fn.Signature.Results().At(i).Type()}
					}
				}
				if s == "result" && len(results) == 1 {
					return &SV{T: results[0].T, Ty: fn.Signature.Results().At(0).Type()}
				}
				return base(s)
			}
		}
		post.names = withResults(base)
		// old(v) of a variable captured by reference: its content in the pre-state heap
		post.rebind = func(h map[string]*Term) func(string) *SV { return withResults(fr.specEnvEntry(h).names) }
		for i, d := range con.Defines {
			// ghost definition of an abstract view on the freshly allocated result: a conservative extension,
			// admitted only if the result is provably fresh
			if len(results) == 0 || results[0].T == nil {
				stale("defines needs a result")
			}
			vc.Oblige("defines-fresh", fmt.Sprintf("defines-fresh.%d%s", i, g.suffix), reach, Or(Eq(results[0].T, IntLit(0)), Gt(results[0].T, x.top0)), x.pos(fn.Pos()), "the object whose abstract view is defined is freshly allocated")
			vc.Assume(Implies(reach, post.evalBool(d.E)))
			e.Note("ghost definition admitted for the fresh result of " + fn.String() + ": " + d.Text)
		}
		for i, en := range con.Ensures {
			t := post.evalBool(en.E)
			ob := vc.Oblige("post", fmt.Sprintf("post.%d%s", i, g.suffix), reach, t, x.pos(fn.Pos()), en.Text)
			ob.Env = post
		}
		for _, ic := range ifaceCons {
			ie := ifaceEnv(ic, post, results)
			oe := ifaceEnv(ic, pre, nil)
			ie.old = oe
			for i, en := range ic.Ensures {
				t := ie.evalBool(en.E)
				ob := vc.Oblige("refines", fmt.Sprintf("refines.%s.%d%s", short(ic), i, g.suffix), reach, t, x.pos(fn.Pos()), en.Text)
				ob.Env = ie
			}
		}
	}
	_ = nAssumeBase
	return vc
}

func (e *Engine) findIface(fn *ssa.Function, name string) *Contract {
	for k, c := range e.Ifaces {
		if k == name || strings.HasSuffix(k, "."+name) || strings.HasSuffix(k, "."+strings.Replace(name, ".", ").", 1)) {
			return c
		}
	}
	return nil
}

// frameChecker returns, for a store target, the goal "this store is allowed" (nil = always allowed).
func (e *Engine) frameChecker(x *Exec, fr *Frame, con *Contract, pre *SpecEnv) func(p *Place, heap map[string]*Term) *Term {
	if con.SafetyOnly || con.Opts["noframe"] != "" {
		return nil
	}
	type allowed struct {
		comp string
		ref  *Term
		lo, hi *Term // element range within the row (nil = any)
	}
	var al []allowed
	all := false
	for _, m := range con.Modifies {
		ex := m.E
		if ex.Kind == "call" && ex.Name == "elems" && len(ex.Args) == 1 {
			sv := pre.eval(ex.Args[0])
			if sv.T.S == SSlice {
				el := sv.Ty.Underlying().(*types.Slice).Elem()
				al = append(al, allowed{comp: memComp(e.SortOf(el)), ref: SArr(sv.T), lo: SOff(sv.T), hi: Add(SOff(sv.T), SCap(sv.T))})
				continue
			}
		}
		switch ex.Kind {
		case "ident":
			if ex.Name == "all" {
				all = true
				continue
			}
			if ex.Name == "nothing" || ex.Name == "cursors" {
				continue
			}
			sv := pre.eval(ex)
			if sv.T.S == SSlice {
				el := sv.Ty.Underlying().(*types.Slice).Elem()
				al = append(al, allowed{comp: memComp(e.SortOf(el)), ref: SArr(sv.T), lo: SOff(sv.T), hi: Add(SOff(sv.T), SCap(sv.T))})
				continue
			}
		case "field":
			base := pre.eval(ex.Args[0])
			bt, isPtr := derefType(base.Ty)
			if isPtr {
				if st, ok := bt.Underlying().(*types.Struct); ok {
					found := false
					for i := 0; i < st.NumFields(); i++ {
						if st.Field(i).Name() == ex.Name {
							found = true
							if _, isStruct := st.Field(i).Type().Underlying().(*types.Struct); isStruct {
								// every field of the embedded object
								var addEmb func(t types.Type, ref *Term)
								addEmb = func(t types.Type, ref *Term) {
									s2 := t.Underlying().(*types.Struct)
									for j := 0; j < s2.NumFields(); j++ {
										if _, is := s2.Field(j).Type().Underlying().(*types.Struct); is {
											addEmb(s2.Field(j).Type(), x.embRef(t, s2.Field(j).Name(), ref))
											continue
										}
										al = append(al, allowed{comp: x.fieldPlace(t, j, ref).Comp, ref: ref})
									}
								}
								addEmb(st.Field(i).Type(), x.embRef(bt, ex.Name, base.T))
							} else {
								al = append(al, allowed{comp: x.fieldPlace(bt, i, base.T).Comp, ref: base.T})
							}
						}
					}
					if found {
						continue
					}
				}
			}
		case "call":
			if ghostFields[ex.Name] || ex.Name == "cursorsBelow" {
				continue // ghost state: no concrete stores
			}
			if ex.Name == "deref" {
				a := pre.eval(ex.Args[0])
				if pt, isPtr := derefType(a.Ty); isPtr {
					srt := e.SortOf(pt)
					al = append(al, allowed{comp: cellComp(srt, isRefType(pt)), ref: a.T})
					continue
				}
			}
			if ex.Name == "object" {
				a := pre.eval(ex.Args[0])
				bt, _ := derefType(a.Ty)
				var addObj func(t types.Type, ref *Term)
				addObj = func(t types.Type, ref *Term) {
					s2 := t.Underlying().(*types.Struct)
					for j := 0; j < s2.NumFields(); j++ {
						if _, is := s2.Field(j).Type().Underlying().(*types.Struct); is {
							addObj(s2.Field(j).Type(), x.embRef(t, s2.Field(j).Name(), ref))
							continue
						}
						al = append(al, allowed{comp: x.fieldPlace(t, j, ref).Comp, ref: ref})
					}
				}
				addObj(bt, a.T)
				continue
			}
		}
		stale("unsupported modifies item %q", m.Text)
	}
	if all {
		return nil
	}
	return func(p *Place, heap map[string]*Term) *Term {
		// fresh objects may always be written
		ok := []*Term{Gt(p.Ref, x.top0)}
		for _, a := range al {
			if a.comp != p.Comp {
				continue
			}
			c := Eq(p.Ref, a.ref)
			if a.lo != nil && p.Idx != nil {
				c = And(c, Ge(p.Idx, a.lo), Lt(p.Idx, a.hi))
			}
			ok = append(ok, c)
		}
		return Or(ok...)
	}
}

// splitCover: the declared cases exhaust the precondition.
func (e *Engine) splitCover(fn *ssa.Function, con *Contract) *VC {
	su := e.setup(fn, con, nil)
	vc, pre := su.vc, su.preEnv
	for _, r := range con.Requires {
		vc.Assume(pre.evalBool(r.E))
	}
	var cs []*Term
	for _, sp := range con.Splits {
		v := pre.evalInt(sp.E)
		cs = append(cs, And(Ge(v, IntLit(sp.Lo)), Le(v, IntLit(sp.Hi))))
	}
	// outside the cases the function must take its specified exceptional exit: that is checked in
	// the unsplit run only for the explicit panic, so the cover obligation is: requires ==> cases,
	// unless 'panics when' holds.
	var ps []*Term
	for _, p := range con.Panics {
		ps = append(ps, pre.evalBool(p.E))
	}
	vc.Oblige("split-cover", "split-cover", True, Or(append(ps, And(cs...))...), su.x.pos(fn.Pos()), "split cases exhaust the precondition")
	return vc
}

// lemmaVC: a closed formula proved with all spec functions transparent.
func (e *Engine) lemmaVC(con *Contract) *VC {
	vc := &VC{Eng: e, counts: map[string]int{}}
	x := &Exec{eng: e, vc: vc, heap0: map[string]*Term{}, top0: Var("top0", SInt), callSeqs: map[string]int{}, sentinels: map[string]*Term{}, opaque: map[string]bool{}}
	vc.X = x
	env := &SpecEnv{x: x, heap: map[string]*Term{}, bound: map[string]*SV{}}
	for i, en := range con.Ensures {
		vc.Oblige("lemma", fmt.Sprintf("lemma.%d", i), True, env.evalBool(en.E), con.File, en.Text)
	}
	return vc
}

func (e *Engine) globalAxioms(x *Exec) {
	vc := x.vc
	// lemmas this contract uses: proved separately (transparent), assumed here over the opaque symbols
	if x.topFrame != nil && x.topFrame.contract != nil {
		for _, ln := range strings.Split(x.topFrame.contract.Opts["uses"], ",") {
			ln = strings.TrimSpace(ln)
			if ln == "" {
				continue
			}
			lc := e.Contracts["lemma:"+ln]
			if lc == nil {
				stale("unknown lemma %q", ln)
			}
			env := &SpecEnv{x: x, heap: map[string]*Term{}, bound: map[string]*SV{}}
			for _, en := range lc.Ensures {
				vc.Assume(env.evalBool(en.E))
			}
		}
	}
	// user axioms
	env := &SpecEnv{x: x, heap: map[string]*Term{}, bound: map[string]*SV{}}
	for _, a := range e.Axioms {
		// kept apart from the hypotheses: an axiom is only emitted into a query that mentions one of
		// its uninterpreted symbols (unused quantified axioms make the solvers give up)
		vc.Axioms = append(vc.Axioms, env.evalBool(a.E))
	}
}

// freeVarSV: the spec-level meaning of a captured variable's name.
func (fr *Frame) freeVarSV(p *ssa.FreeVar, v *Val, heap map[string]*Term) *SV {
	if v == nil || v.T == nil {
		return nil
	}
	if pt, ok := p.Type().Underlying().(*types.Pointer); ok {
		switch pt.Elem().Underlying().(type) {
		case *types.Struct, *types.Array:
		default:
			return &SV{T: fr.loadObject(heap, v.T, pt.Elem()), Ty: pt.Elem()}
		}
	}
	return &SV{T: v.T, Ty: p.Type()}
}


// ---------- rename recovery ----------

var unknownNameRe = regexp.MustCompile(`unknown name \\?"([A-Za-z_][A-Za-z0-9_]*)\\?"`)

// RenameCandidates: when generation failed because a loop clause names a local variable that no
// longer exists, the names of the function's current variables that the contract does not mention.
// Only names that occur in loop clauses and nowhere else in the contract qualify: a loop invariant is
// an auxiliary of the proof (any inductive one will do), whereas requires / ensures / assert at
// clauses are claims whose meaning must not depend on a guess.
func (e *Engine) RenameCandidates(key string, errText string) (missing string, cands []string) {
	m := unknownNameRe.FindStringSubmatch(errText)
	if m == nil {
		return "", nil
	}
	missing = m[1]
	con := e.Contracts[key]
	fnKey := key
	if i := variantSep(key); i >= 0 {
		fnKey = key[:i]
	}
	fn := e.funcByString(fnKey)
	if con == nil || fn == nil {
		return missing, nil
	}
	word := func(text, w string) bool {
		return regexp.MustCompile(`(^|[^A-Za-z0-9_.])`+regexp.QuoteMeta(w)+`($|[^A-Za-z0-9_])`).MatchString(text)
	}
	var claims, loops []string
	for _, cs := range [][]*Clause{con.Requires, con.Assumes, con.Ensures, con.Defines, con.Panics, con.Modifies, con.RegionAssumes} {
		for _, c := range cs {
			claims = append(claims, c.Text)
		}
	}
	for _, a := range con.Asserts {
		claims = append(claims, a.C.Text)
	}
	for _, sp := range con.Splits {
		claims = append(claims, sp.Text)
	}
	for _, l := range con.Loops {
		for _, c := range l.Invariants {
			loops = append(loops, c.Text)
		}
		loops = append(loops, l.Modifies...)
	}
	for _, t := range claims {
		if word(t, missing) {
			return missing, nil
		}
	}
	inLoops := false
	for _, t := range loops {
		if word(t, missing) {
			inLoops = true
		}
	}
	if !inLoops {
		return missing, nil
	}
	seen := map[string]bool{}
	addName := func(n string) {
		if n == "" || seen[n] || n == "_" {
			return
		}
		seen[n] = true
		for _, t := range append(append([]string{}, claims...), loops...) {
			if word(t, n) {
				return
			}
		}
		cands = append(cands, n)
	}
	for _, b := range fn.Blocks {
		for _, in := range b.Instrs {
			switch d := in.(type) {
			case *ssa.DebugRef:
				if obj := d.Object(); obj != nil {
					if _, isVar := obj.(*types.Var); isVar {
						addName(obj.Name())
					}
				}
			case *ssa.Phi:
				addName(d.Comment)
			case *ssa.Alloc:
				addName(d.Comment)
			}
		}
	}
	sort.Strings(cands)
	if len(cands) > 6 {
		cands = cands[:6]
	}
	return missing, cands
}
