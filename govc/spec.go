package govc

// Contract files (DESIGN §4).
//
// Contracts live in comment-only Go files (//go:build verif) inside /repo and in
// /verif/spec/*.contracts for assumed (external) contracts.  Only lines that start
// with "//@" are read.

import (
	"fmt"
	"os"
	"regexp"
	"strconv"
	"strings"

	"govc/govcrt"
)

type Expr = govcrt.Expr

var ParseExpr = govcrt.ParseExpr

// ---------- contract files ----------

type Clause struct {
	Text string
	E    *Expr
	Name string // optional label
}

type LoopSpec struct {
	Ordinal    int
	Unroll     int
	Invariants []*Clause
	Modifies   []string
}

type SplitSpec struct {
	E      *Expr
	Text   string
	Lo, Hi int64
	Mod    int64 // if >0 the split is on E % Mod  (E itself must be "x % m" textually)
}

type CallSpec struct {
	Callee string
	Ensures []*Clause
}

type Contract struct {
	Key       string // as written: "Read64", "SectionReader.ReadBitsAt", "pkgpath.Func"
	Kind      string // func, iface, assume
	Params    []string // optional renaming of params (iface / assume contracts)
	Results   []string
	Requires  []*Clause
	Assumes   []*Clause // entry assumptions that callers are NOT asked to establish (listed as unchecked)
	Ensures   []*Clause
	Defines   []*Clause // definitional extension on a fresh result (ghost define, DESIGN §3.5)
	Panics    []*Clause // panics when C
	NoPanic   bool
	NoReturn  bool // the function never returns normally (it always panics): the path ends at a call
	Modifies  []*Clause
	Loops     map[string]*LoopSpec // key: "N" for own loops, "callee.N" for loops of inlined callees
	Splits    []*SplitSpec
	Mode      string // "", "bv"
	Inline    bool
	Refines   []string
	Pure      bool
	Property  []string // property ids this contract serves
	Trusted   bool     // assumed, not verified
	File      string
	Lemmas    []*Clause // assert-style hints inside: not used
	SafetyOnly bool
	Havoc     string // for assumed: what is havocked: "none" (default for pure), "all"
	Fresh     bool
	Opts      map[string]string
	RegionAssumes []*Clause // facts assumed (unchecked) about the state at the start of the verified region
	Asserts   []*AssertSpec // cut-point assertions evaluated before calls: "assert at callee[#k]: expr"
	synth     bool
}

// AssertSpec: an assertion over the caller's variables (and arg0..argN, the call's arguments) that
// must hold immediately before the k-th (source order; every one if k < 0) call to a function
// whose name ends in Callee.
type AssertSpec struct {
	Trust  bool // "trust at": assumed (unchecked) right after the call, with result bound
	Callee string
	Ord    int
	C      *Clause
}

type TypeSpec struct {
	Name       string
	Immutable  []string
	Invariants []*Clause
	Views      []*ViewSpec
	Ghost      []string
	File       string
}

// ViewSpec: view RLen(this) = expr   /  view RBit(this, i) = expr
type ViewSpec struct {
	Fn     string
	Params []string
	Body   *Clause
}

type SpecFunc struct {
	Name    string
	Params  []string
	PTypes  []string
	RType   string
	Body    *Clause // nil for uninterpreted
}

type ContractFile struct {
	Path      string
	PkgPath   string
	Contracts []*Contract
	Types     []*TypeSpec
	Funcs     []*SpecFunc
	Axioms    []*Clause
}

var headRe = regexp.MustCompile(`^(func|iface|assume|type|spec|uninterpreted|axiom|lemma|sweep|schema|endschema)\b\s*(.*)$`)
var clauseKw = map[string]bool{"assumes": true, "defines": true, "requires": true, "ensures": true, "panics": true, "split": true, "loop": true, "modifies": true,
	"immutable": true, "invariant": true, "view": true, "ghost": true, "mode": true, "inline": true, "refines": true,
	"pure": true, "property": true, "nopanic": true, "noreturn": true, "trusted": true, "safety": true, "havoc": true, "fresh": true, "opt": true, "assert": true, "region": true, "trust": true}

func mustClause(text, where string) *Clause {
	e, err := ParseExpr(text)
	if err != nil {
		panic(fmt.Errorf("%s: %v", where, err))
	}
	return &Clause{Text: text, E: e}
}

// ParseContractFile reads //@ lines.
func ParseContractFile(path, pkgPath string) (cf *ContractFile, err error) {
	data, err := os.ReadFile(path)
	if err != nil {
		return nil, err
	}
	defer func() {
		if r := recover(); r != nil {
			if er, ok := r.(error); ok {
				err = er
				return
			}
			panic(r)
		}
	}()
	cf = &ContractFile{Path: path, PkgPath: pkgPath}
	// gather logical lines: a clause line plus its continuation lines
	type lline struct {
		text string
		no   int
	}
	var lines []lline
	for i, raw := range strings.Split(string(data), "\n") {
		s := strings.TrimSpace(raw)
		if !strings.HasPrefix(s, "//@") {
			continue
		}
		s = strings.TrimSpace(strings.TrimPrefix(s, "//@"))
		if s == "" || strings.HasPrefix(s, "#") {
			continue
		}
		if k := strings.Index(s, " //"); k >= 0 {
			s = strings.TrimSpace(s[:k])
		}
		first := strings.Fields(s)[0]
		if headRe.MatchString(s) || clauseKw[first] {
			lines = append(lines, lline{s, i + 1})
		} else if len(lines) > 0 {
			lines[len(lines)-1].text += " " + s
		} else {
			panic(fmt.Errorf("%s:%d: continuation without clause", path, i+1))
		}
	}
	// schema blocks: "schema N in 1..64; E in LE=LittleEndian, BE=BigEndian" ... "endschema" are expanded
	// textually, one copy of the enclosed contracts per combination ({N}, {E} = key, {E.v} = value,
	// {N/2} {N-1} ... = constant arithmetic on a numeric variable)
	{
		var out []lline
		for i := 0; i < len(lines); i++ {
			if !strings.HasPrefix(lines[i].text, "schema ") && lines[i].text != "schema" {
				if lines[i].text == "endschema" {
					panic(fmt.Errorf("%s:%d: endschema without schema", path, lines[i].no))
				}
				out = append(out, lines[i])
				continue
			}
			where := fmt.Sprintf("%s:%d", path, lines[i].no)
			vars := parseSchemaVars(strings.TrimSpace(strings.TrimPrefix(lines[i].text, "schema")), where)
			j := i + 1
			for j < len(lines) && lines[j].text != "endschema" {
				j++
			}
			if j == len(lines) {
				panic(fmt.Errorf("%s: schema without endschema", where))
			}
			body := lines[i+1 : j]
			var rec func(k int, env map[string][2]string)
			rec = func(k int, env map[string][2]string) {
				if k == len(vars) {
					for _, b := range body {
						out = append(out, lline{schemaSubst(b.text, env, where), b.no})
					}
					return
				}
				for _, kv := range vars[k].vals {
					env[vars[k].name] = kv
					rec(k+1, env)
				}
			}
			rec(0, map[string][2]string{})
			i = j
		}
		lines = out
	}
	var cur *Contract
	var curT *TypeSpec
	for _, l := range lines {
		where := fmt.Sprintf("%s:%d", path, l.no)
		if m := headRe.FindStringSubmatch(l.text); m != nil {
			cur, curT = nil, nil
			rest := strings.TrimSpace(m[2])
			switch m[1] {
			case "func", "iface", "assume":
				c := &Contract{Kind: m[1], Loops: map[string]*LoopSpec{}, File: path, Opts: map[string]string{}}
				if m[1] == "assume" {
					c.Trusted = true
				}
				// name [ (params) [ (results) ] ]
				name := rest
				skip := 0
				if strings.HasPrefix(rest, "(") {
					// receiver form "(*pkg.T).Method(params)": the name extends past the first group
					depth := 0
					for i, ch := range rest {
						if ch == '(' {
							depth++
						} else if ch == ')' {
							depth--
							if depth == 0 {
								skip = i + 1
								break
							}
						}
					}
				}
				if k := strings.Index(rest[skip:], "("); k >= 0 {
					k += skip
					name = strings.TrimSpace(rest[:k])
					groups := parenGroups(rest[k:])
					if len(groups) > 0 {
						c.Params = splitNames(groups[0])
					}
					if len(groups) > 1 {
						c.Results = splitNames(groups[1])
					}
				}
				c.Key = name
				cf.Contracts = append(cf.Contracts, c)
				cur = c
			case "type":
				curT = &TypeSpec{Name: rest, File: path}
				cf.Types = append(cf.Types, curT)
			case "spec", "uninterpreted":
				// spec name(a int, b slice) bool = expr
				sf := &SpecFunc{}
				k := strings.Index(rest, "(")
				if k < 0 {
					panic(fmt.Errorf("%s: bad spec", where))
				}
				sf.Name = strings.TrimSpace(rest[:k])
				depth, j := 0, k
				for ; j < len(rest); j++ {
					if rest[j] == '(' {
						depth++
					} else if rest[j] == ')' {
						depth--
						if depth == 0 {
							break
						}
					}
				}
				for _, p := range strings.Split(rest[k+1:j], ",") {
					f := strings.Fields(p)
					if len(f) == 0 {
						continue
					}
					if len(f) != 2 {
						panic(fmt.Errorf("%s: spec param needs 'name type'", where))
					}
					sf.Params = append(sf.Params, f[0])
					sf.PTypes = append(sf.PTypes, f[1])
				}
				tail := strings.TrimSpace(rest[j+1:])
				if m[1] == "spec" {
					eq := strings.Index(tail, "=")
					if eq < 0 {
						panic(fmt.Errorf("%s: spec needs '= body'", where))
					}
					sf.RType = strings.TrimSpace(tail[:eq])
					sf.Body = mustClause(strings.TrimSpace(tail[eq+1:]), where)
				} else {
					sf.RType = tail
				}
				cf.Funcs = append(cf.Funcs, sf)
			case "axiom":
				cf.Axioms = append(cf.Axioms, mustClause(rest, where))
			case "sweep":
				// sweep <property> : f1, f2, ...   -- safety-only contracts without preconditions:
				// no runtime fault for any argument values (machine arithmetic modelled exactly,
				// callee preconditions assumed and listed)
				parts := strings.SplitN(rest, ":", 2)
				if len(parts) != 2 {
					panic(fmt.Errorf("%s: sweep needs 'property: functions'", where))
				}
				prop := strings.TrimSpace(parts[0])
				for _, name := range strings.FieldsFunc(parts[1], func(r rune) bool { return r == ',' || r == ' ' }) {
					c := &Contract{Kind: "func", Key: name + "#sweep", Loops: map[string]*LoopSpec{}, File: path,
						Opts: map[string]string{"wrap-signed": "yes", "assume-callee-pre": "yes", "noframe": "yes"},
						SafetyOnly: true, Property: []string{prop}}
					cf.Contracts = append(cf.Contracts, c)
				}
				cur = nil
			case "lemma":
				c := &Contract{Kind: "lemma", Key: rest, Loops: map[string]*LoopSpec{}, File: path, Opts: map[string]string{}}
				cf.Contracts = append(cf.Contracts, c)
				cur = c
			}
			continue
		}
		f := strings.Fields(l.text)
		kw := f[0]
		rest := strings.TrimSpace(strings.TrimPrefix(l.text, kw))
		if curT != nil {
			switch kw {
			case "immutable":
				curT.Immutable = append(curT.Immutable, splitNames(rest)...)
			case "invariant":
				curT.Invariants = append(curT.Invariants, mustClause(rest, where))
			case "ghost":
				curT.Ghost = append(curT.Ghost, splitNames(rest)...)
			case "view":
				// view RLen(this) = expr
				eq := strings.Index(rest, "=")
				k := strings.Index(rest, "(")
				if eq < 0 || k < 0 || k > eq {
					panic(fmt.Errorf("%s: bad view", where))
				}
				// find first '=' that is not part of '==' etc. after the closing paren
				cl := strings.Index(rest, ")")
				eq = cl + 1 + strings.Index(rest[cl+1:], "=")
				v := &ViewSpec{Fn: strings.TrimSpace(rest[:k]), Params: splitNames(rest[k+1 : cl])}
				v.Body = mustClause(strings.TrimSpace(rest[eq+1:]), where)
				curT.Views = append(curT.Views, v)
			default:
				panic(fmt.Errorf("%s: clause %q not allowed in type spec", where, kw))
			}
			continue
		}
		if cur == nil {
			panic(fmt.Errorf("%s: clause outside func/type", where))
		}
		switch kw {
		case "requires":
			cur.Requires = append(cur.Requires, mustClause(rest, where))
		case "assumes":
			cur.Assumes = append(cur.Assumes, mustClause(rest, where))
		case "ensures":
			cur.Ensures = append(cur.Ensures, mustClause(rest, where))
		case "defines":
			cur.Defines = append(cur.Defines, mustClause(rest, where))
		case "panics":
			rest = strings.TrimSpace(strings.TrimPrefix(rest, "when"))
			cur.Panics = append(cur.Panics, mustClause(rest, where))
		case "noreturn":
			cur.NoReturn = true
		case "nopanic":
			cur.NoPanic = true
		case "trusted":
			// contract used at call sites but not verified against the body (listed as an assumption)
			cur.Trusted = true
		case "modifies":
			for _, part := range splitTop(rest, ',') {
				cur.Modifies = append(cur.Modifies, mustClause(part, where))
			}
		case "mode":
			cur.Mode = rest
		case "inline":
			cur.Inline = true
		case "pure":
			cur.Pure = true
		case "fresh":
			cur.Fresh = true
		case "safety":
			cur.SafetyOnly = true
		case "havoc":
			cur.Havoc = rest
		case "opt":
			kv := strings.SplitN(rest, " ", 2)
			v := ""
			if len(kv) > 1 {
				v = strings.TrimSpace(kv[1])
			}
			cur.Opts[kv[0]] = v
		case "refines":
			cur.Refines = append(cur.Refines, splitNames(rest)...)
		case "property":
			cur.Property = append(cur.Property, splitNames(rest)...)
		case "split":
			for _, part := range splitTop(rest, ';') {
				// expr in lo..hi
				k := strings.LastIndex(part, " in ")
				if k < 0 {
					panic(fmt.Errorf("%s: split needs 'e in lo..hi'", where))
				}
				et := strings.TrimSpace(part[:k])
				rng := strings.Split(strings.TrimSpace(part[k+4:]), "..")
				if len(rng) != 2 {
					panic(fmt.Errorf("%s: split range", where))
				}
				lo, e1 := strconv.ParseInt(strings.TrimSpace(rng[0]), 0, 64)
				hi, e2 := strconv.ParseInt(strings.TrimSpace(rng[1]), 0, 64)
				if e1 != nil || e2 != nil {
					panic(fmt.Errorf("%s: split range numbers", where))
				}
				sp := &SplitSpec{Text: et, Lo: lo, Hi: hi}
				sp.E = mustClause(et, where).E
				if sp.E.Kind == "binary" && sp.E.Name == "%" && sp.E.Args[1].Kind == "int" {
					sp.Mod, _ = strconv.ParseInt(sp.E.Args[1].Int, 0, 64)
				}
				cur.Splits = append(cur.Splits, sp)
			}
		case "loop":
			// loop N unroll K | loop N invariant e | loop N modifies a, b
			if len(f) < 3 {
				panic(fmt.Errorf("%s: bad loop clause", where))
			}
			lk := f[1]
			nstr := lk
			if k := strings.LastIndex(lk, "."); k >= 0 {
				nstr = lk[k+1:]
			}
			n, err := strconv.Atoi(nstr)
			if err != nil {
				panic(fmt.Errorf("%s: loop ordinal", where))
			}
			ls := cur.Loops[lk]
			if ls == nil {
				ls = &LoopSpec{Ordinal: n}
				cur.Loops[lk] = ls
			}
			body := strings.TrimSpace(strings.TrimPrefix(strings.TrimSpace(strings.TrimPrefix(rest, f[1])), f[2]))
			switch f[2] {
			case "unroll":
				k, err := strconv.Atoi(body)
				if err != nil {
					panic(fmt.Errorf("%s: unroll count", where))
				}
				ls.Unroll = k
			case "invariant":
				ls.Invariants = append(ls.Invariants, mustClause(body, where))
			case "modifies":
				ls.Modifies = append(ls.Modifies, splitNames(body)...)
			default:
				panic(fmt.Errorf("%s: unknown loop clause %q", where, f[2]))
			}
		case "region":
			// region from callee[#k]   |   region assumes expr
			r := strings.TrimSpace(rest)
			switch {
			case strings.HasPrefix(r, "from "):
				cur.Opts["region-from"] = strings.TrimSpace(strings.TrimPrefix(r, "from "))
			case strings.HasPrefix(r, "assumes "):
				cur.RegionAssumes = append(cur.RegionAssumes, mustClause(strings.TrimSpace(strings.TrimPrefix(r, "assumes ")), where))
			default:
				panic(fmt.Errorf("%s: bad region clause", where))
			}
		case "assert", "trust":
			// assert at callee[#k]: expr   (checked before the call)
			// trust at callee[#k]: expr    (assumed after the call; "result" is the call's result; "dynamic" names calls of function values)
			r := strings.TrimSpace(strings.TrimPrefix(strings.TrimSpace(rest), "at"))
			k := strings.Index(r, ":")
			if k < 0 {
				panic(fmt.Errorf("%s: bad assert clause (assert at callee[#k]: expr)", where))
			}
			as := &AssertSpec{Trust: kw == "trust", Callee: strings.TrimSpace(r[:k]), Ord: -1, C: mustClause(strings.TrimSpace(r[k+1:]), where)}
			if h := strings.Index(as.Callee, "#"); h >= 0 {
				n, err := strconv.Atoi(as.Callee[h+1:])
				if err != nil {
					panic(fmt.Errorf("%s: assert ordinal", where))
				}
				as.Ord, as.Callee = n, as.Callee[:h]
			}
			cur.Asserts = append(cur.Asserts, as)
		default:
			panic(fmt.Errorf("%s: unknown clause %q", where, kw))
		}
	}
	return cf, nil
}

type schemaVar struct {
	name string
	vals [][2]string // key, value
}

func parseSchemaVars(s, where string) []schemaVar {
	var out []schemaVar
	for _, part := range strings.Split(s, ";") {
		part = strings.TrimSpace(part)
		k := strings.Index(part, " in ")
		if k < 0 {
			panic(fmt.Errorf("%s: schema needs 'V in ...'", where))
		}
		v := schemaVar{name: strings.TrimSpace(part[:k])}
		for _, item := range strings.Split(part[k+4:], ",") {
			item = strings.TrimSpace(item)
			if r := strings.Split(item, ".."); len(r) == 2 {
				lo, e1 := strconv.Atoi(strings.TrimSpace(r[0]))
				hi, e2 := strconv.Atoi(strings.TrimSpace(r[1]))
				if e1 != nil || e2 != nil {
					panic(fmt.Errorf("%s: schema range", where))
				}
				for x := lo; x <= hi; x++ {
					v.vals = append(v.vals, [2]string{strconv.Itoa(x), strconv.Itoa(x)})
				}
				continue
			}
			if e := strings.Index(item, "="); e >= 0 {
				v.vals = append(v.vals, [2]string{strings.TrimSpace(item[:e]), strings.TrimSpace(item[e+1:])})
			} else {
				v.vals = append(v.vals, [2]string{item, item})
			}
		}
		if len(v.vals) == 0 {
			panic(fmt.Errorf("%s: schema variable %s has no values", where, v.name))
		}
		out = append(out, v)
	}
	return out
}

var schemaRefRe = regexp.MustCompile(`\{([A-Za-z]+)(\.v|[-+*/][0-9]+)?\}`)

func schemaSubst(text string, env map[string][2]string, where string) string {
	return schemaRefRe.ReplaceAllStringFunc(text, func(m string) string {
		g := schemaRefRe.FindStringSubmatch(m)
		kv, ok := env[g[1]]
		if !ok {
			panic(fmt.Errorf("%s: schema variable %s not bound", where, g[1]))
		}
		switch {
		case g[2] == "":
			return kv[0]
		case g[2] == ".v":
			return kv[1]
		}
		x, err := strconv.Atoi(kv[0])
		y, _ := strconv.Atoi(g[2][1:])
		if err != nil {
			panic(fmt.Errorf("%s: arithmetic on non-numeric schema variable %s", where, g[1]))
		}
		switch g[2][0] {
		case '+':
			x += y
		case '-':
			x -= y
		case '*':
			x *= y
		case '/':
			x /= y
		}
		return strconv.Itoa(x)
	})
}

func parenGroups(s string) []string {
	var out []string
	depth, start := 0, -1
	for i, c := range s {
		if c == '(' {
			if depth == 0 {
				start = i + 1
			}
			depth++
		} else if c == ')' {
			depth--
			if depth == 0 {
				out = append(out, s[start:i])
			}
		}
	}
	return out
}

func splitNames(s string) []string {
	var out []string
	for _, p := range strings.Split(s, ",") {
		p = strings.TrimSpace(p)
		if p != "" {
			// allow "name type" — keep the name only
			out = append(out, strings.Fields(p)[0])
		}
	}
	return out
}

func splitTop(s string, sep byte) []string {
	var out []string
	depth, start := 0, 0
	for i := 0; i < len(s); i++ {
		switch s[i] {
		case '(', '[':
			depth++
		case ')', ']':
			depth--
		default:
			if s[i] == sep && depth == 0 {
				out = append(out, strings.TrimSpace(s[start:i]))
				start = i + 1
			}
		}
	}
	if t := strings.TrimSpace(s[start:]); t != "" {
		out = append(out, t)
	}
	return out
}
