package govc

// Terms: a small typed AST for SMT-LIB with folding smart constructors.
//
// Integer model (DESIGN §3.3): signed Go integers are SMT Int, unsigned are
// bit-vectors of their width.  Folding is only an optimisation: every
// simplification performed here is an SMT-valid equivalence.

import (
	"fmt"
	"math/big"
	"sort"
	"strings"
)

type SortKind int

const (
	KBool SortKind = iota
	KInt
	KBV
	KNamed // datatype or uninterpreted sort
	KArray
	KFP
)

type Sort struct {
	K      SortKind
	W      int    // bit width for KBV; ebits for FP
	W2     int    // sbits for FP
	Name   string // for KNamed
	Idx    *Sort
	Elem   *Sort
	Fields []SField // for struct datatypes
}

type SField struct {
	Name string
	S    *Sort
}

var (
	SBool  = &Sort{K: KBool}
	SInt   = &Sort{K: KInt}
	SRef   = SInt // references are integers, nil = 0
	SSlice = &Sort{K: KNamed, Name: "Slice"}
	SStr   = &Sort{K: KNamed, Name: "Str"}
	bvs    = map[int]*Sort{}
)

func SBV(w int) *Sort {
	if s, ok := bvs[w]; ok {
		return s
	}
	s := &Sort{K: KBV, W: w}
	bvs[w] = s
	return s
}

var arrSorts = map[string]*Sort{}

func SArray(i, e *Sort) *Sort {
	k := i.String() + "->" + e.String()
	if s, ok := arrSorts[k]; ok {
		return s
	}
	s := &Sort{K: KArray, Idx: i, Elem: e}
	arrSorts[k] = s
	return s
}

var fpSorts = map[string]*Sort{}

func SFP(e, s int) *Sort {
	k := fmt.Sprintf("%d_%d", e, s)
	if x, ok := fpSorts[k]; ok {
		return x
	}
	x := &Sort{K: KFP, W: e, W2: s}
	fpSorts[k] = x
	return x
}

func (s *Sort) String() string {
	switch s.K {
	case KBool:
		return "Bool"
	case KInt:
		return "Int"
	case KBV:
		return fmt.Sprintf("(_ BitVec %d)", s.W)
	case KNamed:
		return s.Name
	case KArray:
		return fmt.Sprintf("(Array %s %s)", s.Idx, s.Elem)
	case KFP:
		return fmt.Sprintf("(_ FloatingPoint %d %d)", s.W, s.W2)
	}
	return "?"
}

// Short is a name usable inside identifiers.
func (s *Sort) Short() string {
	switch s.K {
	case KBool:
		return "bool"
	case KInt:
		return "int"
	case KBV:
		return fmt.Sprintf("bv%d", s.W)
	case KNamed:
		return s.Name
	case KArray:
		return "arr_" + s.Idx.Short() + "_" + s.Elem.Short()
	case KFP:
		return fmt.Sprintf("fp%d_%d", s.W, s.W2)
	}
	return "x"
}

func SameSort(a, b *Sort) bool { return a == b || a.String() == b.String() }

type Term struct {
	Op   string // "var", "int", "bv", "true", "false", or an SMT operator / function symbol
	Name string // for var
	Val  *big.Int
	Args []*Term
	S    *Sort
	size int
	Pats [][]*Term // quantifier triggers
}

func (t *Term) Size() int {
	if t.size == 0 {
		n := 1
		for _, a := range t.Args {
			n += a.Size()
			if n > 1<<20 {
				break
			}
		}
		t.size = n
	}
	return t.size
}

var (
	True  = &Term{Op: "true", S: SBool}
	False = &Term{Op: "false", S: SBool}
)

func Var(name string, s *Sort) *Term { return &Term{Op: "var", Name: name, S: s} }

func IntLit(v int64) *Term      { return &Term{Op: "int", Val: big.NewInt(v), S: SInt} }
func IntBig(v *big.Int) *Term   { return &Term{Op: "int", Val: new(big.Int).Set(v), S: SInt} }
func BVLit(v uint64, w int) *Term {
	b := new(big.Int).SetUint64(v)
	return BVBig(b, w)
}
func BVBig(v *big.Int, w int) *Term {
	m := new(big.Int).Lsh(big.NewInt(1), uint(w))
	x := new(big.Int).Mod(v, m)
	return &Term{Op: "bv", Val: x, S: SBV(w)}
}
func BoolLit(b bool) *Term {
	if b {
		return True
	}
	return False
}

func (t *Term) IsLit() bool    { return t.Op == "int" || t.Op == "bv" || t.Op == "true" || t.Op == "false" }
func (t *Term) IsTrue() bool   { return t.Op == "true" }
func (t *Term) IsFalse() bool  { return t.Op == "false" }
func (t *Term) IsIntLit() bool { return t.Op == "int" }
func (t *Term) IsBVLit() bool  { return t.Op == "bv" }

// App builds an application without folding.
func App(op string, s *Sort, args ...*Term) *Term {
	return &Term{Op: op, Args: args, S: s}
}

// ---------- structural equality (cheap, bounded) ----------

func Equal(a, b *Term) bool {
	if a == b {
		return true
	}
	if a.Op != b.Op || a.Name != b.Name || len(a.Args) != len(b.Args) {
		return false
	}
	if a.Size() != b.Size() || a.Size() > 400 {
		return false
	}
	if (a.Val == nil) != (b.Val == nil) {
		return false
	}
	if a.Val != nil && a.Val.Cmp(b.Val) != 0 {
		return false
	}
	if !SameSort(a.S, b.S) {
		return false
	}
	for i := range a.Args {
		if !Equal(a.Args[i], b.Args[i]) {
			return false
		}
	}
	return true
}

// ---------- boolean ----------

func Not(a *Term) *Term {
	switch a.Op {
	case "true":
		return False
	case "false":
		return True
	case "not":
		return a.Args[0]
	}
	return App("not", SBool, a)
}

func And(as ...*Term) *Term {
	var out []*Term
	for _, a := range as {
		if a == nil || a.IsTrue() {
			continue
		}
		if a.IsFalse() {
			return False
		}
		if a.Op == "and" {
			out = append(out, a.Args...)
			continue
		}
		out = append(out, a)
	}
	// dedupe, detect x and not x
	var o2 []*Term
outer:
	for _, a := range out {
		for _, b := range o2 {
			if Equal(a, b) {
				continue outer
			}
			if (a.Op == "not" && Equal(a.Args[0], b)) || (b.Op == "not" && Equal(b.Args[0], a)) {
				return False
			}
		}
		o2 = append(o2, a)
	}
	switch len(o2) {
	case 0:
		return True
	case 1:
		return o2[0]
	}
	return App("and", SBool, o2...)
}

func Or(as ...*Term) *Term {
	var out []*Term
	for _, a := range as {
		if a == nil || a.IsFalse() {
			continue
		}
		if a.IsTrue() {
			return True
		}
		if a.Op == "or" {
			out = append(out, a.Args...)
			continue
		}
		out = append(out, a)
	}
	var o2 []*Term
outer:
	for _, a := range out {
		for _, b := range o2 {
			if Equal(a, b) {
				continue outer
			}
			if (a.Op == "not" && Equal(a.Args[0], b)) || (b.Op == "not" && Equal(b.Args[0], a)) {
				return True
			}
		}
		o2 = append(o2, a)
	}
	switch len(o2) {
	case 0:
		return False
	case 1:
		return o2[0]
	}
	return App("or", SBool, o2...)
}

func Implies(a, b *Term) *Term {
	if a.IsTrue() {
		return b
	}
	if a.IsFalse() || b.IsTrue() {
		return True
	}
	if b.IsFalse() {
		return Not(a)
	}
	return App("=>", SBool, a, b)
}

func Iff(a, b *Term) *Term { return Eq(a, b) }

func Ite(c, a, b *Term) *Term {
	if c.IsTrue() {
		return a
	}
	if c.IsFalse() {
		return b
	}
	if Equal(a, b) {
		return a
	}
	if a.S.K == KBool {
		if a.IsTrue() && b.IsFalse() {
			return c
		}
		if a.IsFalse() && b.IsTrue() {
			return Not(c)
		}
	}
	return App("ite", a.S, c, a, b)
}

func Eq(a, b *Term) *Term {
	if !SameSort(a.S, b.S) {
		panic(fmt.Sprintf("Eq sort mismatch: %s : %s  vs  %s : %s", a, a.S, b, b.S))
	}
	if a.IsLit() && b.IsLit() {
		if a.S.K == KBool {
			return BoolLit(a.Op == b.Op)
		}
		return BoolLit(a.Val.Cmp(b.Val) == 0)
	}
	if Equal(a, b) {
		return True
	}
	if a.S.K == KBool {
		if a.IsTrue() {
			return b
		}
		if b.IsTrue() {
			return a
		}
		if a.IsFalse() {
			return Not(b)
		}
		if b.IsFalse() {
			return Not(a)
		}
	}
	if a.S.K == KInt {
		if d, ok := linDiffConst(a, b); ok {
			return BoolLit(d.Sign() == 0)
		}
	}
	if a.Op == "mk-slice" && b.Op == "mk-slice" {
		var cs []*Term
		for i := range a.Args {
			cs = append(cs, Eq(a.Args[i], b.Args[i]))
		}
		return And(cs...)
	}
	return App("=", SBool, a, b)
}

func Neq(a, b *Term) *Term { return Not(Eq(a, b)) }

// ---------- linear integer forms ----------

type linForm struct {
	c     *big.Int
	atoms []*Term
	coefs []*big.Int
}

func (l *linForm) add(t *Term, k *big.Int) {
	if k.Sign() == 0 {
		return
	}
	for i, a := range l.atoms {
		if Equal(a, t) {
			l.coefs[i] = new(big.Int).Add(l.coefs[i], k)
			return
		}
	}
	l.atoms = append(l.atoms, t)
	l.coefs = append(l.coefs, new(big.Int).Set(k))
}

func toLin(t *Term, k *big.Int, l *linForm, depth int) {
	if depth > 40 {
		l.add(t, k)
		return
	}
	switch t.Op {
	case "int":
		l.c.Add(l.c, new(big.Int).Mul(k, t.Val))
	case "+":
		for _, a := range t.Args {
			toLin(a, k, l, depth+1)
		}
	case "-":
		if len(t.Args) == 1 {
			toLin(t.Args[0], new(big.Int).Neg(k), l, depth+1)
		} else {
			toLin(t.Args[0], k, l, depth+1)
			nk := new(big.Int).Neg(k)
			for _, a := range t.Args[1:] {
				toLin(a, nk, l, depth+1)
			}
		}
	case "at":
		toLin(t.Args[0], k, l, depth+1)
		toLin(t.Args[1], k, l, depth+1)
	case "*":
		if len(t.Args) == 2 && t.Args[0].IsIntLit() {
			toLin(t.Args[1], new(big.Int).Mul(k, t.Args[0].Val), l, depth+1)
		} else if len(t.Args) == 2 && t.Args[1].IsIntLit() {
			toLin(t.Args[0], new(big.Int).Mul(k, t.Args[1].Val), l, depth+1)
		} else {
			l.add(t, k)
		}
	default:
		l.add(t, k)
	}
}

func linOf(t *Term) *linForm {
	l := &linForm{c: new(big.Int)}
	toLin(t, big.NewInt(1), l, 0)
	// drop zero coefs
	var as []*Term
	var cs []*big.Int
	for i := range l.atoms {
		if l.coefs[i].Sign() != 0 {
			as = append(as, l.atoms[i])
			cs = append(cs, l.coefs[i])
		}
	}
	l.atoms, l.coefs = as, cs
	return l
}

func (l *linForm) term() *Term {
	var parts []*Term
	for i, a := range l.atoms {
		k := l.coefs[i]
		if k.Cmp(big.NewInt(1)) == 0 {
			parts = append(parts, a)
		} else {
			parts = append(parts, App("*", SInt, IntBig(k), a))
		}
	}
	if l.c.Sign() != 0 || len(parts) == 0 {
		parts = append(parts, IntBig(l.c))
	}
	if len(parts) == 1 {
		return parts[0]
	}
	return App("+", SInt, parts...)
}

// linDiffConst: a-b is a constant?
func linDiffConst(a, b *Term) (*big.Int, bool) {
	if a.Size() > 60 || b.Size() > 60 {
		return nil, false
	}
	l := &linForm{c: new(big.Int)}
	toLin(a, big.NewInt(1), l, 0)
	toLin(b, big.NewInt(-1), l, 0)
	for _, k := range l.coefs {
		if k.Sign() != 0 {
			return nil, false
		}
	}
	return l.c, true
}

func normInt(t *Term) *Term {
	if t.Size() > 60 {
		return t
	}
	return linOf(t).term()
}

func Add(a, b *Term) *Term {
	if a.IsIntLit() && a.Val.Sign() == 0 {
		return b
	}
	if b.IsIntLit() && b.Val.Sign() == 0 {
		return a
	}
	return normInt(App("+", SInt, a, b))
}

func Sub(a, b *Term) *Term {
	if b.IsIntLit() && b.Val.Sign() == 0 {
		return a
	}
	return normInt(App("-", SInt, a, b))
}

func Neg(a *Term) *Term { return normInt(App("-", SInt, a)) }

func Mul(a, b *Term) *Term {
	if a.IsIntLit() && b.IsIntLit() {
		return IntBig(new(big.Int).Mul(a.Val, b.Val))
	}
	if a.IsIntLit() || b.IsIntLit() {
		return normInt(App("*", SInt, a, b))
	}
	return App("*", SInt, a, b)
}

// FloorDiv / FloorMod: SMT-LIB div/mod (Euclidean; equals floor for positive divisor).
func EDiv(a, b *Term) *Term {
	if b.IsIntLit() && b.Val.Sign() > 0 {
		if a.IsIntLit() {
			q, _ := new(big.Int).DivMod(a.Val, b.Val, new(big.Int))
			return IntBig(q)
		}
		if b.Val.Cmp(big.NewInt(1)) == 0 {
			return a
		}
		if a.Size() <= 60 {
			l := linOf(a)
			all := true
			for _, k := range l.coefs {
				if new(big.Int).Mod(k, b.Val).Sign() != 0 {
					all = false
				}
			}
			if all && len(l.atoms) > 0 {
				q := &linForm{c: new(big.Int)}
				for i, at := range l.atoms {
					q.add(at, new(big.Int).Div(l.coefs[i], b.Val))
				}
				cq, _ := new(big.Int).DivMod(l.c, b.Val, new(big.Int))
				q.c = cq
				return q.term()
			}
		}
	}
	return App("div", SInt, a, b)
}

func EMod(a, b *Term) *Term {
	if b.IsIntLit() && b.Val.Sign() > 0 {
		if a.IsIntLit() {
			_, m := new(big.Int).DivMod(a.Val, b.Val, new(big.Int))
			return IntBig(m)
		}
		if b.Val.Cmp(big.NewInt(1)) == 0 {
			return IntLit(0)
		}
		if a.Size() <= 60 {
			l := linOf(a)
			all := true
			for _, k := range l.coefs {
				if new(big.Int).Mod(k, b.Val).Sign() != 0 {
					all = false
				}
			}
			if all {
				_, m := new(big.Int).DivMod(l.c, b.Val, new(big.Int))
				return IntBig(m)
			}
		}
	}
	return App("mod", SInt, a, b)
}

func cmpFold(op string, a, b *Term) (*Term, bool) {
	var d *big.Int
	if a.IsIntLit() && b.IsIntLit() {
		d = new(big.Int).Sub(a.Val, b.Val)
	} else if dd, ok := linDiffConst(a, b); ok {
		d = dd
	} else {
		return nil, false
	}
	s := d.Sign()
	switch op {
	case "<":
		return BoolLit(s < 0), true
	case "<=":
		return BoolLit(s <= 0), true
	case ">":
		return BoolLit(s > 0), true
	case ">=":
		return BoolLit(s >= 0), true
	}
	return nil, false
}

func Cmp(op string, a, b *Term) *Term {
	if a.S.K != KInt || b.S.K != KInt {
		panic("Cmp on non-Int: " + a.String() + " " + op + " " + b.String())
	}
	if r, ok := cmpFold(op, a, b); ok {
		return r
	}
	return App(op, SBool, a, b)
}
func Lt(a, b *Term) *Term { return Cmp("<", a, b) }
func Le(a, b *Term) *Term { return Cmp("<=", a, b) }
func Gt(a, b *Term) *Term { return Cmp(">", a, b) }
func Ge(a, b *Term) *Term { return Cmp(">=", a, b) }

// ---------- bit-vectors ----------

func mask(w int) *big.Int {
	return new(big.Int).Sub(new(big.Int).Lsh(big.NewInt(1), uint(w)), big.NewInt(1))
}

func BVBin(op string, a, b *Term) *Term {
	w := a.S.W
	if !SameSort(a.S, b.S) {
		panic(fmt.Sprintf("BVBin %s sort mismatch %s vs %s", op, a.S, b.S))
	}
	if a.IsBVLit() && b.IsBVLit() {
		x, y := a.Val, b.Val
		r := new(big.Int)
		switch op {
		case "bvadd":
			r.Add(x, y)
		case "bvsub":
			r.Sub(x, y)
		case "bvmul":
			r.Mul(x, y)
		case "bvand":
			r.And(x, y)
		case "bvor":
			r.Or(x, y)
		case "bvxor":
			r.Xor(x, y)
		case "bvshl":
			if y.Cmp(big.NewInt(int64(w))) >= 0 {
				r.SetInt64(0)
			} else {
				r.Lsh(x, uint(y.Uint64()))
			}
		case "bvlshr":
			if y.Cmp(big.NewInt(int64(w))) >= 0 {
				r.SetInt64(0)
			} else {
				r.Rsh(x, uint(y.Uint64()))
			}
		case "bvudiv":
			if y.Sign() == 0 {
				return App(op, a.S, a, b)
			}
			r.Div(x, y)
		case "bvurem":
			if y.Sign() == 0 {
				return App(op, a.S, a, b)
			}
			r.Mod(x, y)
		default:
			return App(op, a.S, a, b)
		}
		return BVBig(r, w)
	}
	zero := func(t *Term) bool { return t.IsBVLit() && t.Val.Sign() == 0 }
	ones := func(t *Term) bool { return t.IsBVLit() && t.Val.Cmp(mask(w)) == 0 }
	switch op {
	case "bvor", "bvxor", "bvadd":
		if zero(a) {
			return b
		}
		if zero(b) {
			return a
		}
	case "bvand":
		if zero(a) || zero(b) {
			return BVLit(0, w)
		}
		if ones(a) {
			return b
		}
		if ones(b) {
			return a
		}
	case "bvshl", "bvlshr":
		if zero(b) {
			return a
		}
		if zero(a) {
			return a
		}
		if b.IsBVLit() && b.Val.Cmp(big.NewInt(int64(w))) >= 0 {
			return BVLit(0, w)
		}
	case "bvsub":
		if zero(b) {
			return a
		}
	}
	return App(op, a.S, a, b)
}

func BVNot(a *Term) *Term {
	if a.IsBVLit() {
		return BVBig(new(big.Int).Xor(a.Val, mask(a.S.W)), a.S.W)
	}
	return App("bvnot", a.S, a)
}

func BVNeg(a *Term) *Term {
	if a.IsBVLit() {
		return BVBig(new(big.Int).Neg(a.Val), a.S.W)
	}
	return App("bvneg", a.S, a)
}

func BVCmp(op string, a, b *Term) *Term {
	if a.IsBVLit() && b.IsBVLit() {
		c := a.Val.Cmp(b.Val)
		switch op {
		case "bvult":
			return BoolLit(c < 0)
		case "bvule":
			return BoolLit(c <= 0)
		case "bvugt":
			return BoolLit(c > 0)
		case "bvuge":
			return BoolLit(c >= 0)
		}
	}
	return App(op, SBool, a, b)
}

// ZeroExt / Trunc to width w.
func BVResize(a *Term, w int) *Term {
	aw := a.S.W
	if aw == w {
		return a
	}
	if a.IsBVLit() {
		return BVBig(a.Val, w)
	}
	if w > aw {
		return &Term{Op: "zero_extend", Val: big.NewInt(int64(w - aw)), Args: []*Term{a}, S: SBV(w)}
	}
	return Extract(a, w-1, 0)
}

func Extract(a *Term, hi, lo int) *Term {
	if a.IsBVLit() {
		v := new(big.Int).Rsh(a.Val, uint(lo))
		return BVBig(v, hi-lo+1)
	}
	if lo == 0 && hi == a.S.W-1 {
		return a
	}
	if a.Op == "zero_extend" {
		inner := a.Args[0]
		if hi < inner.S.W {
			return Extract(inner, hi, lo)
		}
		if lo >= inner.S.W {
			return BVLit(0, hi-lo+1)
		}
	}
	return &Term{Op: "extract", Val: big.NewInt(int64(hi)<<16 | int64(lo)), Args: []*Term{a}, S: SBV(hi - lo + 1)}
}

func Concat(a, b *Term) *Term {
	if a.IsBVLit() && b.IsBVLit() {
		v := new(big.Int).Lsh(a.Val, uint(b.S.W))
		v.Or(v, b.Val)
		return BVBig(v, a.S.W+b.S.W)
	}
	return App("concat", SBV(a.S.W+b.S.W), a, b)
}

// BV2Nat: unsigned value of a bit-vector as Int.
func BV2Nat(a *Term) *Term {
	if a.IsBVLit() {
		return IntBig(a.Val)
	}
	return App("bv2nat", SInt, a)
}

// Int2BV (only folded on literals; symbolic use is recorded by the caller).
// IntDefs: defining terms of named Int values (filled when the executor introduces a name for a
// large term), so that conversions back to bit-vectors can see through the name.
var IntDefs = map[string]*Term{}

func Int2BV(a *Term, w int) *Term {
	if a.IsIntLit() {
		return BVBig(a.Val, w)
	}
	if a.Op == "var" {
		if d, ok := IntDefs[a.Name]; ok {
			return Int2BV(d, w)
		}
	}
	if a.Op == "bv2nat" {
		return BVResize(a.Args[0], w)
	}
	// int2bv is a ring homomorphism Z -> Z/2^w: push it through ite, +, -, * by constants
	// (the recursion only descends through these Int operators and stops at bv2nat / variables);
	// kept only if it removes every int2bv, i.e. the value really came from bit-vectors
	if r := int2bvPush(a, w); r != nil && !containsOp(r, "int2bv", map[*Term]bool{}) {
		return r
	}
	return &Term{Op: "int2bv", Val: big.NewInt(int64(w)), Args: []*Term{a}, S: SBV(w)}
}

func containsOp(t *Term, op string, seen map[*Term]bool) bool {
	if seen[t] {
		return false
	}
	seen[t] = true
	if t.Op == op {
		return true
	}
	for _, a := range t.Args {
		if containsOp(a, op, seen) {
			return true
		}
	}
	return false
}

func int2bvPush(a *Term, w int) *Term {
	{
		switch a.Op {
		case "ite":
			return Ite(a.Args[0], Int2BV(a.Args[1], w), Int2BV(a.Args[2], w))
		case "+":
			r := Int2BV(a.Args[0], w)
			for _, x := range a.Args[1:] {
				r = BVBin("bvadd", r, Int2BV(x, w))
			}
			return r
		case "-":
			if len(a.Args) == 1 {
				return BVNeg(Int2BV(a.Args[0], w))
			}
			r := Int2BV(a.Args[0], w)
			for _, x := range a.Args[1:] {
				r = BVBin("bvsub", r, Int2BV(x, w))
			}
			return r
		case "*":
			if len(a.Args) == 2 && (a.Args[0].IsIntLit() || a.Args[1].IsIntLit()) {
				return BVBin("bvmul", Int2BV(a.Args[0], w), Int2BV(a.Args[1], w))
			}
		}
	}
	return nil
}

func int2bvTail(a *Term, w int) *Term {
	return &Term{Op: "int2bv", Val: big.NewInt(int64(w)), Args: []*Term{a}, S: SBV(w)}
}

// ShiftByInt: Go semantics of x << c / x >> c for unsigned x with an Int count c >= 0
// (negative count is a separate obligation).  Count >= width gives 0.
func ShiftByInt(op string, x, c *Term) *Term {
	w := x.S.W
	if c.IsIntLit() {
		if c.Val.Sign() < 0 || c.Val.Cmp(big.NewInt(int64(w))) >= 0 {
			return BVLit(0, w)
		}
		return BVBin(op, x, BVLit(c.Val.Uint64(), w))
	}
	// ite chain
	r := BVLit(0, w)
	for k := w - 1; k >= 0; k-- {
		r = App("ite", x.S, App("=", SBool, c, IntLit(int64(k))), BVBin(op, x, BVLit(uint64(k), w)), r)
	}
	return r
}

// ElemIdx: physical index of logical element k of a slice at offset off.  For byte memories this is
// plain arithmetic (bit-level proofs fold it); for other element sorts the sum is wrapped in the
// function "at" (axiom: at(o,k) = o+k) so that quantifier triggers such as s[k] contain no arithmetic.
func ElemIdx(off, k *Term, es *Sort) *Term {
	if es.K == KBV && es.W == 8 {
		return Add(off, k)
	}
	if off.IsIntLit() && k.IsIntLit() {
		return Add(off, k)
	}
	return App("at", SInt, off, k)
}

// ---------- arrays ----------

func idxRel(a, b *Term) int { // 1 equal, -1 distinct, 0 unknown
	if a.S.K == KInt {
		if a.IsIntLit() && b.IsIntLit() {
			if a.Val.Cmp(b.Val) == 0 {
				return 1
			}
			return -1
		}
		if d, ok := linDiffConst(a, b); ok {
			if d.Sign() == 0 {
				return 1
			}
			return -1
		}
		return 0
	}
	if Equal(a, b) {
		return 1
	}
	if a.IsLit() && b.IsLit() {
		return -1
	}
	return 0
}

func Select(arr, idx *Term) *Term {
	for arr.Op == "store" {
		switch idxRel(arr.Args[1], idx) {
		case 1:
			return arr.Args[2]
		case -1:
			arr = arr.Args[0]
			continue
		}
		break
	}
	return App("select", arr.S.Elem, arr, idx)
}

func Store(arr, idx, v *Term) *Term {
	if !SameSort(arr.S.Elem, v.S) {
		panic(fmt.Sprintf("Store elem sort mismatch: %s vs %s", arr.S.Elem, v.S))
	}
	if arr.Op == "store" && idxRel(arr.Args[1], idx) == 1 {
		arr = arr.Args[0]
	}
	return App("store", arr.S, arr, idx, v)
}

// ---------- datatypes ----------

func MkSlice(arr, off, ln, cp *Term) *Term { return App("mk-slice", SSlice, arr, off, ln, cp) }

func sliceSel(name string, i int, s *Term) *Term {
	if s.Op == "mk-slice" {
		return s.Args[i]
	}
	if s.Op == "ite" {
		return Ite(s.Args[0], sliceSel(name, i, s.Args[1]), sliceSel(name, i, s.Args[2]))
	}
	return App(name, SInt, s)
}
func SArr(s *Term) *Term { return sliceSel("s-arr", 0, s) }
func SOff(s *Term) *Term { return sliceSel("s-off", 1, s) }
func SLen(s *Term) *Term { return sliceSel("s-len", 2, s) }
func SCap(s *Term) *Term { return sliceSel("s-cap", 3, s) }

func MkStruct(s *Sort, fields ...*Term) *Term { return App("mk-"+s.Name, s, fields...) }

func StructSel(v *Term, i int) *Term {
	s := v.S
	if v.Op == "mk-"+s.Name {
		return v.Args[i]
	}
	return App(s.Name+"-"+s.Fields[i].Name, s.Fields[i].S, v)
}

// ---------- printing ----------

func (t *Term) String() string {
	var sb strings.Builder
	t.write(&sb, nil)
	return sb.String()
}

func bvLitStr(v *big.Int, w int) string {
	if w%4 == 0 {
		s := v.Text(16)
		return "#x" + strings.Repeat("0", w/4-len(s)) + s
	}
	s := v.Text(2)
	return "#b" + strings.Repeat("0", w-len(s)) + s
}

func smtIdent(s string) string {
	ok := true
	for _, c := range s {
		if !(c >= 'a' && c <= 'z' || c >= 'A' && c <= 'Z' || c >= '0' && c <= '9' || strings.ContainsRune("_.$@!-", c)) {
			ok = false
		}
	}
	if ok && s != "" {
		return s
	}
	return "|" + s + "|"
}

func (t *Term) write(sb *strings.Builder, names map[*Term]string) {
	if names != nil {
		if n, ok := names[t]; ok {
			sb.WriteString(n)
			return
		}
	}
	switch t.Op {
	case "var":
		sb.WriteString(smtIdent(t.Name))
		return
	case "true", "false":
		sb.WriteString(t.Op)
		return
	case "int":
		if t.Val.Sign() < 0 {
			sb.WriteString("(- " + new(big.Int).Neg(t.Val).String() + ")")
		} else {
			sb.WriteString(t.Val.String())
		}
		return
	case "bv":
		sb.WriteString(bvLitStr(t.Val, t.S.W))
		return
	case "zero_extend":
		fmt.Fprintf(sb, "((_ zero_extend %d) ", t.Val.Int64())
		t.Args[0].write(sb, names)
		sb.WriteString(")")
		return
	case "sign_extend":
		fmt.Fprintf(sb, "((_ sign_extend %d) ", t.Val.Int64())
		t.Args[0].write(sb, names)
		sb.WriteString(")")
		return
	case "extract":
		v := t.Val.Int64()
		fmt.Fprintf(sb, "((_ extract %d %d) ", v>>16, v&0xffff)
		t.Args[0].write(sb, names)
		sb.WriteString(")")
		return
	case "int2bv":
		fmt.Fprintf(sb, "((_ int2bv %d) ", t.Val.Int64())
		t.Args[0].write(sb, names)
		sb.WriteString(")")
		return
	case "forall", "exists":
		// Args[0..n-2] bound vars, Args[n-1] body; Name holds optional pattern text index
		sb.WriteString("(" + t.Op + " (")
		for _, v := range t.Args[:len(t.Args)-1] {
			fmt.Fprintf(sb, "(%s %s)", smtIdent(v.Name), v.S)
		}
		sb.WriteString(") ")
		if len(t.Pats) > 0 {
			sb.WriteString("(! ")
		}
		t.Args[len(t.Args)-1].write(sb, names)
		for _, grp := range t.Pats {
			sb.WriteString(" :pattern (")
			for i, pt := range grp {
				if i > 0 {
					sb.WriteString(" ")
				}
				pt.write(sb, names)
			}
			sb.WriteString(")")
		}
		if len(t.Pats) > 0 {
			sb.WriteString(")")
		}
		sb.WriteString(")")
		return
	}
	if len(t.Args) == 0 {
		sb.WriteString(smtIdent2(t.Op))
		return
	}
	sb.WriteString("(")
	sb.WriteString(smtIdent2(t.Op))
	for _, a := range t.Args {
		sb.WriteString(" ")
		a.write(sb, names)
	}
	sb.WriteString(")")
}

func smtIdent2(op string) string {
	switch op {
	case "+", "-", "*", "<", "<=", ">", ">=", "=", "=>":
		return op
	}
	if strings.HasPrefix(op, "(") {
		return op
	}
	return smtIdent(op)
}

// Forall builds a quantified formula (no folding besides trivial body).
func Forall(vars []*Term, body *Term) *Term {
	if body.IsTrue() {
		return True
	}
	if len(vars) == 0 {
		return body
	}
	args := append(append([]*Term{}, vars...), body)
	return &Term{Op: "forall", Args: args, S: SBool}
}

func Exists(vars []*Term, body *Term) *Term {
	if body.IsFalse() {
		return False
	}
	if len(vars) == 0 {
		return body
	}
	args := append(append([]*Term{}, vars...), body)
	return &Term{Op: "exists", Args: args, S: SBool}
}

// Subst replaces variables by name.
func Subst(t *Term, m map[string]*Term) *Term {
	if len(m) == 0 {
		return t
	}
	memo := map[*Term]*Term{}
	return subst(t, m, memo)
}

func subst(t *Term, m map[string]*Term, memo map[*Term]*Term) *Term {
	if r, ok := memo[t]; ok {
		return r
	}
	var r *Term
	switch {
	case t.Op == "var":
		if x, ok := m[t.Name]; ok {
			r = x
		} else {
			r = t
		}
	case len(t.Args) == 0:
		r = t
	default:
		changed := false
		args := make([]*Term, len(t.Args))
		for i, a := range t.Args {
			args[i] = subst(a, m, memo)
			if args[i] != a {
				changed = true
			}
		}
		if !changed {
			r = t
		} else {
			r = Rebuild(t, args)
		}
	}
	memo[t] = r
	return r
}

// Rebuild re-applies the smart constructor for t.Op on new args.
func Rebuild(t *Term, args []*Term) *Term {
	switch t.Op {
	case "not":
		return Not(args[0])
	case "and":
		return And(args...)
	case "or":
		return Or(args...)
	case "=>":
		return Implies(args[0], args[1])
	case "ite":
		return Ite(args[0], args[1], args[2])
	case "=":
		return Eq(args[0], args[1])
	case "+":
		r := args[0]
		for _, a := range args[1:] {
			r = Add(r, a)
		}
		return r
	case "-":
		if len(args) == 1 {
			return Neg(args[0])
		}
		r := args[0]
		for _, a := range args[1:] {
			r = Sub(r, a)
		}
		return r
	case "*":
		r := args[0]
		for _, a := range args[1:] {
			r = Mul(r, a)
		}
		return r
	case "div":
		return EDiv(args[0], args[1])
	case "mod":
		return EMod(args[0], args[1])
	case "<", "<=", ">", ">=":
		return Cmp(t.Op, args[0], args[1])
	case "bvadd", "bvsub", "bvmul", "bvand", "bvor", "bvxor", "bvshl", "bvlshr", "bvudiv", "bvurem":
		return BVBin(t.Op, args[0], args[1])
	case "bvnot":
		return BVNot(args[0])
	case "bvneg":
		return BVNeg(args[0])
	case "bvult", "bvule", "bvugt", "bvuge":
		return BVCmp(t.Op, args[0], args[1])
	case "zero_extend":
		return BVResize(args[0], t.S.W)
	case "extract":
		v := t.Val.Int64()
		return Extract(args[0], int(v>>16), int(v&0xffff))
	case "concat":
		return Concat(args[0], args[1])
	case "bv2nat":
		return BV2Nat(args[0])
	case "int2bv":
		return Int2BV(args[0], t.S.W)
	case "select":
		return Select(args[0], args[1])
	case "store":
		return Store(args[0], args[1], args[2])
	case "s-arr":
		return SArr(args[0])
	case "s-off":
		return SOff(args[0])
	case "s-len":
		return SLen(args[0])
	case "s-cap":
		return SCap(args[0])
	}
	if t.S.K == KNamed && len(t.S.Fields) > 0 {
		// selectors on struct datatypes
	}
	if len(args) == 1 && args[0].S.K == KNamed && len(args[0].S.Fields) > 0 {
		s := args[0].S
		for i, f := range s.Fields {
			if t.Op == s.Name+"-"+f.Name {
				return StructSel(args[0], i)
			}
		}
	}
	r := &Term{Op: t.Op, Name: t.Name, Val: t.Val, Args: args, S: t.S}
	if len(t.Pats) > 0 {
		r.Pats = t.Pats // note: patterns are not rewritten by substitution
	}
	return r
}

// FreeVars collects variable names (with sorts) appearing in t.
func FreeVars(t *Term, out map[string]*Sort, seen map[*Term]bool) {
	if seen[t] {
		return
	}
	seen[t] = true
	if t.Op == "var" {
		out[t.Name] = t.S
		return
	}
	if t.Op == "forall" || t.Op == "exists" {
		inner := map[string]*Sort{}
		FreeVars(t.Args[len(t.Args)-1], inner, map[*Term]bool{})
		for _, v := range t.Args[:len(t.Args)-1] {
			delete(inner, v.Name)
		}
		for k, v := range inner {
			out[k] = v
		}
		return
	}
	for _, a := range t.Args {
		FreeVars(a, out, seen)
	}
}

func sortedKeys[V any](m map[string]V) []string {
	ks := make([]string, 0, len(m))
	for k := range m {
		ks = append(ks, k)
	}
	sort.Strings(ks)
	return ks
}
