package govcrt

// Replay runtime: builds concrete inputs from a solver model, runs the real function and
// evaluates the contract clauses concretely.  Injected into /repo's test build with
// `go test -overlay` as package internal/govcrt; nothing is written into /repo.

import (
	"runtime"
	"encoding/json"
	"errors"
	"fmt"
	"io"
	"math/big"
	"os"
	"reflect"
	"strings"
	"unsafe"
)

// ---------- replay file ----------

type ReplayFile struct {
	Property   string            `json:"property"`
	Function   string            `json:"function"`
	Obligation string            `json:"obligation"`
	Kind       string            `json:"kind"`
	Clause     string            `json:"clause"`
	Case       string            `json:"case,omitempty"`
	Package    string            `json:"package"`
	Target     string            `json:"target_expr"` // Go expression naming the function inside its package
	Params     []ParamVal        `json:"params"`
	Objects    map[string]*JVal  `json:"objects,omitempty"` // heap objects by reference id
	Requires   []string          `json:"requires"`
	Ensures    []string          `json:"ensures"`
	PanicsWhen []string          `json:"panics_when,omitempty"`
	SpecFuncs  []SpecFuncJ       `json:"spec_funcs,omitempty"`
	Views      []ViewJ           `json:"views,omitempty"`
	Invs       []ViewJ           `json:"type_invariants,omitempty"` // Fn == "", Body = invariant over "this"
	Aliases    map[string]string `json:"aliases,omitempty"` // extra name -> parameter name (interface contract names)
	ResAliases map[string]int    `json:"result_aliases,omitempty"`
	Results    []string          `json:"result_names"`
	SolverOut  string            `json:"solver_output,omitempty"`
	Solver     string            `json:"solver,omitempty"`
	Outcome    string            `json:"outcome,omitempty"` // filled by the check: reproduced / not-reproduced / not-replayable
	Note       string            `json:"note,omitempty"`
	ReplayLog  string            `json:"replay_log,omitempty"`
	Model      map[string]string `json:"model,omitempty"`
}

type ParamVal struct {
	Name  string `json:"name"`
	Value *JVal  `json:"value"`
}

// JVal: a value tree decoded by type
type JVal struct {
	Int    string           `json:"int,omitempty"`  // decimal, for any integer kind
	Bool   *bool            `json:"bool,omitempty"`
	Elems  []*JVal          `json:"elems,omitempty"` // slice / array
	Len    *int             `json:"len,omitempty"`
	Cap    *int             `json:"cap,omitempty"`
	Nil    bool             `json:"nil,omitempty"`
	Fields map[string]*JVal `json:"fields,omitempty"` // struct
	Ref    string           `json:"ref,omitempty"`    // pointer to Objects[ref]
	Stub   *Stub            `json:"stub,omitempty"`   // abstract interface value
	Str    *string          `json:"str,omitempty"`
	Alias  string           `json:"alias,omitempty"` // slice sharing the backing array of an earlier slice param
	Off    int              `json:"off,omitempty"`
	Func   bool             `json:"func,omitempty"` // a callback: a function that does nothing and returns zero values
	// an empty-interface (jq) value: the concrete type ("int", "string", "bool", "[]interface {}") and its value
	AnyType string `json:"any_type,omitempty"`
	Inner   *JVal  `json:"inner,omitempty"`
}

// Stub describes an abstract BitSource from the model: RLen and RBit.
type Stub struct {
	Kind string `json:"kind"` // "bits"
	Bits string `json:"bits"` // "0101..."
	Cur  int64  `json:"cursor"`
}

// ViewJ: a view clause of a type spec: Fn(this, params...) = Body for receivers of type Type.
type ViewJ struct {
	Type   string   `json:"type"` // short type name, e.g. SectionReader
	Fn     string   `json:"fn"`
	Params []string `json:"params"`
	Body   string   `json:"body"`
}

type stubInfo struct {
	s   *Stub
	pre bool
}

var stubs = map[uintptr]*stubInfo{}
var viewDefs []ViewJ
var invDefs []ViewJ

type SpecFuncJ struct {
	Name   string   `json:"name"`
	Params []string `json:"params"`
	Body   string   `json:"body"`
}

// StubFactory lets a package-specific test provide concrete implementations for abstract values.
var StubFactory func(s *Stub, want reflect.Type) (reflect.Value, bool)

// ---------- values ----------

type U struct { // unsigned fixed-width
	V uint64
	W int
}

type unknownT struct{ why string }

func (u unknownT) Error() string { return "unknown: " + u.why }

func unk(format string, a ...any) { panic(unknownT{fmt.Sprintf(format, a...)}) }

type Env struct {
	names map[string]any
	old   *Env
	funcs map[string]*SpecFuncJ
	fexpr map[string]*Expr
}

func maskW(w int) uint64 {
	if w >= 64 {
		return ^uint64(0)
	}
	return (uint64(1) << uint(w)) - 1
}

func fromReflect(v reflect.Value) any {
	switch v.Kind() {
	case reflect.Bool:
		return v.Bool()
	case reflect.Int, reflect.Int8, reflect.Int16, reflect.Int32, reflect.Int64:
		return big.NewInt(v.Int())
	case reflect.Uint, reflect.Uint8, reflect.Uint16, reflect.Uint32, reflect.Uint64, reflect.Uintptr:
		return U{v.Uint(), int(v.Type().Size()) * 8}
	}
	return v
}

func asBig(x any) *big.Int {
	switch v := x.(type) {
	case *big.Int:
		return v
	case U:
		return new(big.Int).SetUint64(v.V)
	case reflect.Value:
		return asBig(fromReflect(v))
	}
	unk("not an integer: %T", x)
	return nil
}

func asBool(x any) bool {
	switch v := x.(type) {
	case bool:
		return v
	case reflect.Value:
		if v.Kind() == reflect.Bool {
			return v.Bool()
		}
	}
	unk("not a bool: %T", x)
	return false
}

func floorDivMod(a, b *big.Int) (*big.Int, *big.Int) {
	if b.Sign() == 0 {
		unk("division by zero in spec")
	}
	q, m := new(big.Int).DivMod(a, b, new(big.Int)) // Euclidean
	return q, m
}

func (env *Env) Eval(e *Expr) (res any) {
	switch e.Kind {
	case "int":
		b := new(big.Int)
		b.SetString(e.Int, 0)
		return b
	case "bool":
		return e.Name == "true"
	case "nil":
		return nil
	case "ident":
		if v, ok := env.names[e.Name]; ok {
			return v
		}
		if e.Name == "MaxBits" {
			return new(big.Int).Lsh(big.NewInt(1), 60)
		}
		unk("unknown name %s", e.Name)
	case "old":
		if env.old == nil {
			unk("old() unavailable")
		}
		o := &Env{names: map[string]any{}, funcs: env.funcs, fexpr: env.fexpr}
		for k, v := range env.names { // bound variables stay visible
			o.names[k] = v
		}
		for k, v := range env.old.names {
			o.names[k] = v
		}
		return o.Eval(e.Args[0])
	case "unary":
		a := env.Eval(e.Args[0])
		switch e.Name {
		case "!":
			return !asBool(a)
		case "-":
			if u, ok := a.(U); ok {
				return U{(-u.V) & maskW(u.W), u.W}
			}
			return new(big.Int).Neg(asBig(a))
		case "^":
			if u, ok := a.(U); ok {
				return U{(^u.V) & maskW(u.W), u.W}
			}
		}
		unk("unary %s", e.Name)
	case "cond":
		if asBool(env.Eval(e.Args[0])) {
			return env.Eval(e.Args[1])
		}
		return env.Eval(e.Args[2])
	case "forall", "exists":
		return env.quant(e)
	case "binary":
		return env.binary(e)
	case "field":
		a := env.Eval(e.Args[0])
		return field(a, e.Name)
	case "index":
		a := env.Eval(e.Args[0])
		i := asBig(env.Eval(e.Args[1])).Int64()
		rv := deref(a)
		if i < 0 || int(i) >= rv.Len() {
			unk("spec index out of range")
		}
		return fromReflect(rv.Index(int(i)))
	case "slice":
		a := deref(env.Eval(e.Args[0]))
		lo, hi := 0, a.Len()
		if e.Args[1] != nil {
			lo = int(asBig(env.Eval(e.Args[1])).Int64())
		}
		if e.Args[2] != nil {
			hi = int(asBig(env.Eval(e.Args[2])).Int64())
		}
		if lo < 0 || hi < lo || hi > a.Cap() {
			unk("spec slice out of range")
		}
		return a.Slice(lo, hi)
	case "call":
		if e.Name == "entry" && len(e.Args) == 1 {
			return env.Eval(&Expr{Kind: "old", Args: e.Args})
		}
		return env.call(e)
	}
	unk("cannot evaluate %s", e)
	return nil
}

func deref(a any) reflect.Value {
	rv, ok := a.(reflect.Value)
	if !ok {
		unk("not a composite value: %T", a)
	}
	for rv.Kind() == reflect.Ptr || rv.Kind() == reflect.Interface {
		if rv.IsNil() {
			unk("nil dereference in spec")
		}
		rv = rv.Elem()
	}
	return rv
}

func field(a any, name string) any {
	rv := deref(a)
	if rv.Kind() != reflect.Struct {
		unk("field %s of non-struct", name)
	}
	f := rv.FieldByName(name)
	if !f.IsValid() {
		unk("no field %s", name)
	}
	if !f.CanInterface() && f.CanAddr() {
		f = reflect.NewAt(f.Type(), unsafe.Pointer(f.UnsafeAddr())).Elem()
	}
	return fromReflect(f)
}

func (env *Env) quant(e *Expr) any {
	if len(e.Vars) != 1 {
		unk("multi-variable quantifier")
	}
	v := e.Vars[0]
	body := e.Args[0]
	// forall v :: lo <= v && v < hi ==> rest      exists v :: lo <= v && v < hi && rest
	var guard, rest *Expr
	if e.Kind == "forall" {
		if body.Kind != "binary" || body.Name != "==>" {
			unk("unbounded quantifier")
		}
		guard, rest = body.Args[0], body.Args[1]
	} else {
		guard, rest = body, &Expr{Kind: "bool", Name: "true"}
	}
	var conj []*Expr
	var flat func(x *Expr)
	flat = func(x *Expr) {
		if x.Kind == "binary" && x.Name == "&&" {
			flat(x.Args[0])
			flat(x.Args[1])
			return
		}
		conj = append(conj, x)
	}
	flat(guard)
	var lo, hi *big.Int
	isV := func(x *Expr) bool { return x.Kind == "ident" && x.Name == v }
	mentions := func(x *Expr) bool { return strings.Contains(" "+x.String()+" ", v) }
	var others []*Expr
	for _, c := range conj {
		done := false
		if c.Kind == "binary" {
			a, b := c.Args[0], c.Args[1]
			switch {
			case c.Name == "<=" && isV(b) && !mentions(a):
				lo, done = asBig(env.Eval(a)), true
			case c.Name == "<" && isV(b) && !mentions(a):
				lo, done = new(big.Int).Add(asBig(env.Eval(a)), big.NewInt(1)), true
			case c.Name == ">=" && isV(a) && !mentions(b):
				lo, done = asBig(env.Eval(b)), true
			case c.Name == "<" && isV(a) && !mentions(b):
				hi, done = asBig(env.Eval(b)), true
			case c.Name == "<=" && isV(a) && !mentions(b):
				hi, done = new(big.Int).Add(asBig(env.Eval(b)), big.NewInt(1)), true
			case c.Name == ">" && isV(b) && !mentions(a):
				hi, done = asBig(env.Eval(a)), true
			}
		}
		if !done {
			others = append(others, c)
		}
	}
	if lo == nil || hi == nil {
		unk("unbounded quantifier %s", e)
	}
	n := new(big.Int).Sub(hi, lo)
	if n.Cmp(big.NewInt(1<<22)) > 0 {
		unk("quantifier range too large")
	}
	sub := &Env{names: map[string]any{}, old: env.old, funcs: env.funcs, fexpr: env.fexpr}
	for k, x := range env.names {
		sub.names[k] = x
	}
	for k := new(big.Int).Set(lo); k.Cmp(hi) < 0; k = new(big.Int).Add(k, big.NewInt(1)) {
		sub.names[v] = k
		ok := true
		for _, o := range others {
			if !asBool(sub.Eval(o)) {
				ok = false
				break
			}
		}
		if !ok {
			continue
		}
		r := asBool(sub.Eval(rest))
		if e.Kind == "forall" && !r {
			return false
		}
		if e.Kind == "exists" && r {
			return true
		}
	}
	return e.Kind == "forall"
}

func (env *Env) binary(e *Expr) any {
	op := e.Name
	switch op {
	case "&&":
		return asBool(env.Eval(e.Args[0])) && asBool(env.Eval(e.Args[1]))
	case "||":
		return asBool(env.Eval(e.Args[0])) || asBool(env.Eval(e.Args[1]))
	case "==>":
		return !asBool(env.Eval(e.Args[0])) || asBool(env.Eval(e.Args[1]))
	case "<==>":
		return asBool(env.Eval(e.Args[0])) == asBool(env.Eval(e.Args[1]))
	}
	a, b := env.Eval(e.Args[0]), env.Eval(e.Args[1])
	if ra, ok := a.(reflect.Value); ok {
		a = fromReflect(ra)
	}
	if rb, ok := b.(reflect.Value); ok {
		b = fromReflect(rb)
	}
	if op == "<<" || op == ">>" {
		cnt := asBig(b)
		if cnt.Sign() < 0 {
			unk("negative shift in spec")
		}
		if u, ok := a.(U); ok {
			if cnt.Cmp(big.NewInt(int64(u.W))) >= 0 {
				return U{0, u.W}
			}
			if op == "<<" {
				return U{(u.V << uint(cnt.Uint64())) & maskW(u.W), u.W}
			}
			return U{u.V >> uint(cnt.Uint64()), u.W}
		}
		if op == "<<" {
			return new(big.Int).Lsh(asBig(a), uint(cnt.Uint64()))
		}
		return new(big.Int).Rsh(asBig(a), uint(cnt.Uint64())) // floor for negatives as well
	}
	// equality on bools / refs
	if op == "==" || op == "!=" {
		eq := valuesEqual(a, b)
		if op == "!=" {
			return !eq
		}
		return eq
	}
	ua, aU := a.(U)
	ub, bU := b.(U)
	if aU || bU {
		// coerce literal to the other's width; U vs non-literal int -> integer comparison
		_, aLit := e.Args[0], e.Args[0].Kind == "int"
		_, bLit := e.Args[1], e.Args[1].Kind == "int"
		switch {
		case aU && bU:
			w := ua.W
			if ub.W > w {
				w = ub.W
			}
			ua.W, ub.W = w, w
		case aU && bLit:
			ub = U{asBig(b).Uint64() & maskW(ua.W), ua.W}
		case bU && aLit:
			ua = U{asBig(a).Uint64() & maskW(ub.W), ub.W}
		default:
			return intOp(op, asBig(a), asBig(b))
		}
		w := ua.W
		m := maskW(w)
		switch op {
		case "+":
			return U{(ua.V + ub.V) & m, w}
		case "-":
			return U{(ua.V - ub.V) & m, w}
		case "*":
			return U{(ua.V * ub.V) & m, w}
		case "&":
			return U{ua.V & ub.V, w}
		case "|":
			return U{ua.V | ub.V, w}
		case "^":
			return U{ua.V ^ ub.V, w}
		case "/":
			if ub.V == 0 {
				unk("division by zero")
			}
			return U{ua.V / ub.V, w}
		case "%":
			if ub.V == 0 {
				unk("division by zero")
			}
			return U{ua.V % ub.V, w}
		case "<":
			return ua.V < ub.V
		case "<=":
			return ua.V <= ub.V
		case ">":
			return ua.V > ub.V
		case ">=":
			return ua.V >= ub.V
		}
		unk("operator %s on unsigned", op)
	}
	return intOp(op, asBig(a), asBig(b))
}

func intOp(op string, x, y *big.Int) any {
	switch op {
	case "+":
		return new(big.Int).Add(x, y)
	case "-":
		return new(big.Int).Sub(x, y)
	case "*":
		return new(big.Int).Mul(x, y)
	case "/":
		q, _ := floorDivMod(x, y)
		return q
	case "%":
		_, m := floorDivMod(x, y)
		return m
	case "<":
		return x.Cmp(y) < 0
	case "<=":
		return x.Cmp(y) <= 0
	case ">":
		return x.Cmp(y) > 0
	case ">=":
		return x.Cmp(y) >= 0
	}
	unk("operator %s on integers", op)
	return nil
}

func valuesEqual(a, b any) bool {
	if a == nil || b == nil {
		isNil := func(x any) bool {
			if x == nil {
				return true
			}
			if rv, ok := x.(reflect.Value); ok {
				switch rv.Kind() {
				case reflect.Ptr, reflect.Interface, reflect.Slice, reflect.Map, reflect.Func:
					return rv.IsNil()
				}
			}
			return false
		}
		return isNil(a) && isNil(b)
	}
	switch av := a.(type) {
	case bool:
		return av == asBool(b)
	case *big.Int:
		return av.Cmp(asBig(b)) == 0
	case U:
		return new(big.Int).SetUint64(av.V).Cmp(asBig(b)) == 0
	case reflect.Value:
		if bv, ok := b.(reflect.Value); ok {
			if av.Kind() == reflect.Ptr && bv.Kind() == reflect.Ptr {
				return origPtr(av.Pointer()) == origPtr(bv.Pointer())
			}
			if av.Kind() == reflect.Interface && bv.Kind() == reflect.Interface {
				if av.IsNil() || bv.IsNil() {
					return av.IsNil() && bv.IsNil()
				}
				ae, be := av.Elem(), bv.Elem()
				if ae.Kind() == reflect.Ptr && be.Kind() == reflect.Ptr {
					return origPtr(ae.Pointer()) == origPtr(be.Pointer())
				}
			}
			if av.CanInterface() && bv.CanInterface() {
				return reflect.DeepEqual(av.Interface(), bv.Interface())
			}
		}
	}
	unk("cannot compare %T and %T", a, b)
	return false
}

func byteSlice(a any) []byte {
	rv := deref(a)
	if rv.Kind() != reflect.Slice && rv.Kind() != reflect.Array {
		unk("not a byte slice")
	}
	out := make([]byte, rv.Len())
	for i := range out {
		out[i] = byte(rv.Index(i).Uint())
	}
	return out
}

func (env *Env) call(e *Expr) any {
	arg := func(i int) any { return env.Eval(e.Args[i]) }
	switch e.Name {
	case "len":
		a := arg(0)
		if a == nil {
			return big.NewInt(0)
		}
		return big.NewInt(int64(deref2(a).Len()))
	case "cap":
		return big.NewInt(int64(deref2(arg(0)).Cap()))
	case "int":
		return asBig(arg(0))
	case "sint":
		a := arg(0)
		if u, ok := a.(U); ok {
			v := new(big.Int).SetUint64(u.V)
			if u.V>>(uint(u.W)-1)&1 == 1 {
				v.Sub(v, new(big.Int).Lsh(big.NewInt(1), uint(u.W)))
			}
			return v
		}
		return asBig(a)
	case "u8", "u16", "u32", "u64":
		w := map[string]int{"u8": 8, "u16": 16, "u32": 32, "u64": 64}[e.Name]
		b := asBig(arg(0))
		m := new(big.Int).Lsh(big.NewInt(1), uint(w))
		return U{new(big.Int).Mod(b, m).Uint64(), w}
	case "min", "max":
		a, b := asBig(arg(0)), asBig(arg(1))
		if (a.Cmp(b) <= 0) == (e.Name == "min") {
			return a
		}
		return b
	case "bitAt":
		bs := deref2(arg(0))
		j := asBig(arg(1)).Int64()
		if j < 0 || j/8 >= int64(bs.Len()) {
			unk("bitAt outside the slice (j=%d len=%d)", j, bs.Len())
		}
		return byte(bs.Index(int(j/8)).Uint())>>(7-uint(j%8))&1 == 1
	case "byteAt":
		bs := deref2(arg(0))
		j := asBig(arg(1)).Int64()
		if j < 0 || j >= int64(bs.Len()) {
			unk("byteAt outside the slice")
		}
		return U{bs.Index(int(j)).Uint(), 8}
	case "ubit":
		v := arg(0).(U)
		n, k := asBig(arg(1)).Int64(), asBig(arg(2)).Int64()
		i := n - 1 - k
		if i < 0 || i >= int64(v.W) {
			return false
		}
		return v.V>>uint(i)&1 == 1
	case "byteOf":
		v := arg(0).(U)
		j := asBig(arg(1)).Int64()
		if j < 0 || j*8 >= int64(v.W) {
			return U{0, 8}
		}
		return U{v.V >> uint(8*j) & 0xff, 8}
	case "bitOfByte":
		v := arg(0).(U)
		k := asBig(arg(1)).Int64()
		if k < 0 || k > 7 {
			return false
		}
		return v.V>>(7-uint(k))&1 == 1
	case "valid":
		a := arg(0)
		rv, p, ok := ptrOf(a)
		if !ok {
			return false // nil
		}
		if _, isStub := stubs[p]; isStub {
			return true
		}
		tn := rv.Type().Elem().Name()
		found := false
		for _, iv := range invDefs {
			if iv.Type != tn {
				continue
			}
			found = true
			body, err := ParseExpr(iv.Body)
			if err != nil {
				unk("invariant of %s: %v", tn, err)
			}
			sub := &Env{names: map[string]any{"this": a}, old: env.old, funcs: env.funcs, fexpr: env.fexpr}
			if !asBool(sub.Eval(body)) {
				return false
			}
		}
		if !found {
			unk("valid() of type %s without invariants", tn)
		}
		return true
	case "disjoint":
		a, b := deref2(arg(0)), deref2(arg(1))
		if a.Len() == 0 || b.Len() == 0 || a.Cap() == 0 || b.Cap() == 0 {
			return true
		}
		pa, pb := a.Pointer(), b.Pointer()
		sz := uintptr(a.Type().Elem().Size())
		return pa+uintptr(a.Cap())*sz <= pb || pb+uintptr(b.Cap())*sz <= pa
	case "isEOF":
		a := arg(0)
		rv, ok := a.(reflect.Value)
		if !ok || !rv.IsValid() || (rv.Kind() == reflect.Interface && rv.IsNil()) {
			return false
		}
		if err, ok := rv.Interface().(error); ok {
			return errorsIsEOF(err)
		}
		return false
	case "fresh", "existing", "sameslice", "arr":
		unk("%s is not evaluated at run time", e.Name)
	}
	if sf, ok := env.funcs[e.Name]; ok {
		if len(sf.Params) != len(e.Args) {
			unk("arity of %s", e.Name)
		}
		sub := &Env{names: map[string]any{}, old: env.old, funcs: env.funcs, fexpr: env.fexpr}
		for i, p := range sf.Params {
			sub.names[p] = arg(i)
		}
		body := env.fexpr[e.Name]
		if body == nil {
			var err error
			body, err = ParseExpr(sf.Body)
			if err != nil {
				unk("spec function %s: %v", e.Name, err)
			}
			env.fexpr[e.Name] = body
		}
		return sub.Eval(body)
	}
	if r, ok := env.view(e); ok {
		return r
	}
	if v, ok := env.names["$view:"+e.Name]; ok {
		f := v.(func(args []any) any)
		var as []any
		for i := range e.Args {
			as = append(as, arg(i))
		}
		return f(as)
	}
	unk("function %s is not evaluated at run time", e.Name)
	return nil
}

func errorsIsEOF(err error) bool { return errors.Is(err, io.EOF) }

func ptrOf(a any) (reflect.Value, uintptr, bool) {
	rv, ok := a.(reflect.Value)
	if !ok {
		return rv, 0, false
	}
	for rv.Kind() == reflect.Interface {
		if rv.IsNil() {
			return rv, 0, false
		}
		rv = rv.Elem()
	}
	if rv.Kind() != reflect.Ptr || rv.IsNil() {
		return rv, 0, false
	}
	return rv, rv.Pointer(), true
}

func (env *Env) view(e *Expr) (any, bool) {
	isView := e.Name == "RLen" || e.Name == "RBit" || e.Name == "cursor" || e.Name == "FLen" || e.Name == "FByte" || e.Name == "FBit" || e.Name == "fpos"
	for _, v := range viewDefs {
		if v.Fn == e.Name {
			isView = true
		}
	}
	if !isView || len(e.Args) == 0 {
		return nil, false
	}
	a := env.Eval(e.Args[0])
	rv, p, ok := ptrOf(a)
	if !ok {
		unk("view %s of a non-pointer", e.Name)
	}
	if si, ok := stubs[p]; ok {
		switch e.Name {
		case "FLen":
			return big.NewInt(int64(len(si.s.Bits) / 8)), true
		case "FBit":
			i := asBig(env.Eval(e.Args[1])).Int64()
			if i < 0 || i >= int64(len(si.s.Bits)) {
				unk("FBit outside the stub file")
			}
			return si.s.Bits[i] == '1', true
		case "FByte":
			i := asBig(env.Eval(e.Args[1])).Int64()
			if i < 0 || 8*i+8 > int64(len(si.s.Bits)) {
				unk("FByte outside the stub file")
			}
			var b uint64
			for k := int64(0); k < 8; k++ {
				b <<= 1
				if si.s.Bits[8*i+k] == '1' {
					b |= 1
				}
			}
			return U{b, 8}, true
		case "fpos":
			if si.pre {
				return big.NewInt(si.s.Cur), true
			}
			m := rv.MethodByName("Seek")
			if !m.IsValid() {
				unk("stub has no Seek")
			}
			out := m.Call([]reflect.Value{reflect.ValueOf(int64(0)), reflect.ValueOf(1)})
			return big.NewInt(out[0].Int()), true
		case "RLen":
			return big.NewInt(int64(len(si.s.Bits))), true
		case "RBit":
			i := asBig(env.Eval(e.Args[1])).Int64()
			if i < 0 || i >= int64(len(si.s.Bits)) {
				unk("RBit outside the stub source")
			}
			return si.s.Bits[i] == '1', true
		case "cursor":
			if si.pre {
				return big.NewInt(si.s.Cur), true
			}
			m := rv.MethodByName("SeekBits")
			if !m.IsValid() {
				unk("stub has no SeekBits")
			}
			out := m.Call([]reflect.Value{reflect.ValueOf(int64(0)), reflect.ValueOf(1)})
			return big.NewInt(out[0].Int()), true
		}
	}
	tn := rv.Type().Elem().Name()
	for _, v := range viewDefs {
		if v.Fn == e.Name && v.Type == tn && len(v.Params) == len(e.Args) {
			sub := &Env{names: map[string]any{}, old: env.old, funcs: env.funcs, fexpr: env.fexpr}
			sub.names[v.Params[0]] = a
			for i := 1; i < len(e.Args); i++ {
				sub.names[v.Params[i]] = env.Eval(e.Args[i])
			}
			key := "view:" + tn + "." + e.Name
			body := env.fexpr[key]
			if body == nil {
				var err error
				body, err = ParseExpr(v.Body)
				if err != nil {
					unk("view %s: %v", key, err)
				}
				env.fexpr[key] = body
			}
			return sub.Eval(body), true
		}
	}
	unk("no view %s for type %s", e.Name, tn)
	return nil, false
}

func deref2(a any) reflect.Value {
	rv, ok := a.(reflect.Value)
	if !ok {
		unk("not a slice: %T", a)
	}
	for rv.Kind() == reflect.Ptr || rv.Kind() == reflect.Interface {
		rv = rv.Elem()
	}
	return rv
}

// ---------- building inputs ----------

type builder struct {
	objs  map[string]*JVal
	built map[string]reflect.Value
	arrs  map[string]reflect.Value
}

func (b *builder) build(j *JVal, t reflect.Type) reflect.Value {
	v := reflect.New(t).Elem()
	if j == nil {
		return v
	}
	switch t.Kind() {
	case reflect.Func:
		if j.Func {
			return reflect.MakeFunc(t, func(args []reflect.Value) []reflect.Value {
				out := make([]reflect.Value, t.NumOut())
				for i := range out {
					out[i] = reflect.Zero(t.Out(i))
				}
				return out
			})
		}
	case reflect.Bool:
		if j.Bool != nil {
			v.SetBool(*j.Bool)
		}
	case reflect.Int, reflect.Int8, reflect.Int16, reflect.Int32, reflect.Int64:
		n := new(big.Int)
		n.SetString(j.Int, 10)
		v.SetInt(n.Int64())
	case reflect.Uint, reflect.Uint8, reflect.Uint16, reflect.Uint32, reflect.Uint64, reflect.Uintptr:
		n := new(big.Int)
		n.SetString(j.Int, 10)
		v.SetUint(n.Uint64())
	case reflect.String:
		if j.Str != nil {
			v.SetString(*j.Str)
		}
	case reflect.Slice:
		if j.Nil {
			return v
		}
		if j.Alias != "" {
			if base, ok := b.arrs[j.Alias]; ok {
				ln := 0
				if j.Len != nil {
					ln = *j.Len
				}
				cp := ln
				if j.Cap != nil {
					cp = *j.Cap
				}
				if j.Off+cp <= base.Cap() {
					return base.Slice3(j.Off, j.Off+ln, j.Off+cp)
				}
			}
		}
		ln := len(j.Elems)
		if j.Len != nil {
			ln = *j.Len
		}
		cp := ln
		if j.Cap != nil && *j.Cap >= ln {
			cp = *j.Cap
		}
		total := j.Off + cp
		back := reflect.MakeSlice(t, total, total)
		for i, e := range j.Elems {
			if j.Off+i < total {
				back.Index(j.Off + i).Set(b.build(e, t.Elem()))
			}
		}
		if j.Ref != "" {
			b.arrs[j.Ref] = back
		}
		return back.Slice3(j.Off, j.Off+ln, j.Off+cp)
	case reflect.Array:
		for i, e := range j.Elems {
			if i < v.Len() {
				v.Index(i).Set(b.build(e, t.Elem()))
			}
		}
	case reflect.Struct:
		for i := 0; i < t.NumField(); i++ {
			f := t.Field(i)
			fj, ok := j.Fields[f.Name]
			if !ok {
				continue
			}
			fv := v.Field(i)
			if !fv.CanSet() {
				fv = reflect.NewAt(f.Type, unsafe.Pointer(fv.UnsafeAddr())).Elem()
			}
			fv.Set(b.build(fj, f.Type))
		}
	case reflect.Ptr:
		if j.Nil || j.Ref == "" {
			return v
		}
		if p, ok := b.built[j.Ref]; ok {
			return p
		}
		p := reflect.New(t.Elem())
		b.built[j.Ref] = p
		if o, ok := b.objs[j.Ref]; ok {
			p.Elem().Set(b.build(o, t.Elem()))
		}
		return p
	case reflect.Interface:
		if j.AnyType != "" {
			var rt reflect.Type
			switch j.AnyType {
			case "int":
				rt = reflect.TypeOf(int(0))
			case "string":
				rt = reflect.TypeOf("")
			case "bool":
				rt = reflect.TypeOf(false)
			case "[]interface {}":
				rt = reflect.TypeOf([]any(nil))
			}
			if rt != nil && rt.AssignableTo(t) {
				v.Set(b.build(j.Inner, rt))
				return v
			}
		}
		if j.Nil {
			return v
		}
		if j.Stub != nil && StubFactory != nil {
			if sv, ok := StubFactory(j.Stub, t); ok {
				v.Set(sv)
				if sv.Kind() == reflect.Ptr {
					stubs[sv.Pointer()] = &stubInfo{s: j.Stub}
				}
				return v
			}
		}
		panic(unknownT{"cannot build a value of interface type " + t.String()})
	default:
		panic(unknownT{"cannot build a value of type " + t.String()})
	}
	return v
}

// origOf: object of the pre-state snapshot -> the live object it was copied from, so that identity
// comparisons between old(...) and current values compare objects, not snapshots
var origOf = map[uintptr]uintptr{}

func origPtr(p uintptr) uintptr {
	if o, ok := origOf[p]; ok {
		return o
	}
	return p
}

func deepCopy(v reflect.Value, seen map[uintptr]reflect.Value) reflect.Value {
	switch v.Kind() {
	case reflect.Slice:
		if v.IsNil() {
			return v
		}
		c := reflect.MakeSlice(v.Type(), v.Len(), v.Cap())
		for i := 0; i < v.Len(); i++ {
			c.Index(i).Set(deepCopy(v.Index(i), seen))
		}
		return c
	case reflect.Ptr:
		if v.IsNil() {
			return v
		}
		if c, ok := seen[v.Pointer()]; ok {
			return c
		}
		c := reflect.New(v.Type().Elem())
		seen[v.Pointer()] = c
		origOf[c.Pointer()] = v.Pointer()
		if si, ok := stubs[v.Pointer()]; ok {
			stubs[c.Pointer()] = &stubInfo{s: si.s, pre: true}
		}
		c.Elem().Set(deepCopy(v.Elem(), seen))
		return c
	case reflect.Interface:
		if v.IsNil() {
			return v
		}
		c := reflect.New(v.Type()).Elem()
		c.Set(deepCopy(v.Elem(), seen))
		return c
	case reflect.Struct:
		c := reflect.New(v.Type()).Elem()
		for i := 0; i < v.NumField(); i++ {
			src := v.Field(i)
			dst := c.Field(i)
			if !src.CanInterface() {
				if !src.CanAddr() {
					tmp := reflect.New(v.Type()).Elem()
					tmp.Set(v)
					src = tmp.Field(i)
				}
				src = reflect.NewAt(src.Type(), unsafe.Pointer(src.UnsafeAddr())).Elem()
			}
			if !dst.CanSet() {
				dst = reflect.NewAt(dst.Type(), unsafe.Pointer(dst.UnsafeAddr())).Elem()
			}
			dst.Set(deepCopy(src, seen))
		}
		return c
	case reflect.Array:
		c := reflect.New(v.Type()).Elem()
		for i := 0; i < v.Len(); i++ {
			c.Index(i).Set(deepCopy(v.Index(i), seen))
		}
		return c
	}
	return v
}

// Run replays one counterexample.  It prints exactly one line starting with "REPLAY-RESULT:".
//   REPLAY-RESULT: reproduced <what>      the real code violates the clause / panics on the model input
//   REPLAY-RESULT: holds                   the real code satisfies the contract on the model input
//   REPLAY-RESULT: invalid <why>           the model input does not satisfy the precondition concretely
//   REPLAY-RESULT: unknown <why>           the replay could not be evaluated
func Run(path string, target any) {
	out := func(s string) { fmt.Println("REPLAY-RESULT: " + s) }
	data, err := os.ReadFile(path)
	if err != nil {
		out("unknown cannot read replay file: " + err.Error())
		return
	}
	var rf ReplayFile
	if err := json.Unmarshal(data, &rf); err != nil {
		out("unknown bad replay file: " + err.Error())
		return
	}
	defer func() {
		if r := recover(); r != nil {
			if u, ok := r.(unknownT); ok {
				out("unknown " + u.why)
				return
			}
			out(fmt.Sprintf("unknown internal: %v", r))
		}
	}()
	fv := reflect.ValueOf(target)
	ft := fv.Type()
	if ft.Kind() != reflect.Func || ft.NumIn() != len(rf.Params) {
		out(fmt.Sprintf("unknown target has %d parameters, replay file has %d", ft.NumIn(), len(rf.Params)))
		return
	}
	b := &builder{objs: rf.Objects, built: map[string]reflect.Value{}, arrs: map[string]reflect.Value{}}
	args := make([]reflect.Value, ft.NumIn())
	for i := range args {
		args[i] = b.build(rf.Params[i].Value, ft.In(i))
	}
	funcs := map[string]*SpecFuncJ{}
	for i := range rf.SpecFuncs {
		funcs[rf.SpecFuncs[i].Name] = &rf.SpecFuncs[i]
	}
	viewDefs = rf.Views
	invDefs = rf.Invs
	pre := &Env{names: map[string]any{}, funcs: funcs, fexpr: map[string]*Expr{}}
	seen := map[uintptr]reflect.Value{}
	for i, p := range rf.Params {
		pre.names[p.Name] = fromReflect(deepCopy(args[i], seen))
		if i == 0 {
			pre.names["this"] = pre.names[p.Name]
		}
	}
	for al, pn := range rf.Aliases {
		if v, ok := pre.names[pn]; ok {
			pre.names[al] = v
		}
	}
	evalClause := func(env *Env, text string) (ok bool, known bool, why string) {
		defer func() {
			if r := recover(); r != nil {
				if u, isU := r.(unknownT); isU {
					ok, known, why = false, false, u.why
					return
				}
				panic(r)
			}
		}()
		e, err := ParseExpr(text)
		if err != nil {
			return false, false, err.Error()
		}
		return asBool(env.Eval(e)), true, ""
	}
	for _, r := range rf.Requires {
		ok, known, _ := evalClause(pre, r)
		if known && !ok {
			out("invalid model input violates requires: " + r)
			return
		}
	}
	// specified panic?
	mayPanic := false
	for _, p := range rf.PanicsWhen {
		if ok, known, _ := evalClause(pre, p); known && ok {
			mayPanic = true
		}
	}
	var results []reflect.Value
	var panicked any
	func() {
		defer func() {
			if r := recover(); r != nil {
				panicked = r
			}
		}()
		results = fv.Call(args)
	}()
	if panicked != nil {
		if re, isRuntime := panicked.(runtime.Error); isRuntime {
			// a Go run-time fault (index out of range, makeslice, nil dereference, ...) is never a
			// specified exit: "panics when" only permits the function's own panic statements.  It
			// reproduces the obligation only when it is the kind of fault the obligation is about; a
			// fault of another kind usually means the replay input is incomplete (objects the model
			// does not describe are nil), which decides nothing.
			msg := re.Error()
			match := false
			switch {
			case rf.Kind == "safety.nil":
				match = strings.Contains(msg, "nil pointer") || strings.Contains(msg, "nil map")
			case rf.Kind == "safety.index" || rf.Kind == "safety.slice":
				match = strings.Contains(msg, "out of range")
			case rf.Kind == "safety.div":
				match = strings.Contains(msg, "divide by zero")
			case rf.Kind == "safety.shift":
				match = strings.Contains(msg, "negative shift")
			case rf.Kind == "safety.make":
				match = strings.Contains(msg, "makeslice") || strings.Contains(msg, "out of range")
			case rf.Kind == "safety.assert":
				match = strings.Contains(msg, "interface conversion")
			case rf.Kind == "call-pre" || rf.Kind == "safety.nilmap":
				match = !strings.Contains(msg, "nil pointer")
			}
			if match {
				out(fmt.Sprintf("reproduced run-time fault: %v", re))
			} else {
				out(fmt.Sprintf("unknown the replay ended in a run-time fault that is not what the obligation is about (%v): incomplete replay input", re))
			}
			return
		}
		if mayPanic {
			out("holds (specified panic)")
			return
		}
		out(fmt.Sprintf("reproduced panic: %v", panicked))
		return
	}
	post := &Env{names: map[string]any{}, old: pre, funcs: funcs, fexpr: pre.fexpr}
	for i, p := range rf.Params {
		post.names[p.Name] = fromReflect(args[i])
		if i == 0 {
			post.names["this"] = post.names[p.Name]
		}
	}
	for i, r := range results {
		if i < len(rf.Results) {
			post.names[rf.Results[i]] = fromReflect(r)
		}
		if len(results) == 1 {
			post.names["result"] = fromReflect(r)
		}
	}
	for al, pn := range rf.Aliases {
		if v, ok := post.names[pn]; ok {
			post.names[al] = v
		}
	}
	for al, ri := range rf.ResAliases {
		if ri < len(results) {
			post.names[al] = fromReflect(results[ri])
		}
	}
	unknowns := 0
	for i, en := range rf.Ensures {
		ok, known, why := evalClause(post, en)
		if !known {
			unknowns++
			fmt.Printf("replay: ensures %d not evaluated: %s\n", i, why)
			continue
		}
		if !ok {
			var rs []string
			for _, r := range results {
				if r.CanInterface() {
					rs = append(rs, fmt.Sprintf("%v", r.Interface()))
				}
			}
			out(fmt.Sprintf("reproduced ensures violated: %s  (results: %s)", en, strings.Join(rs, ", ")))
			return
		}
	}
	if unknowns > 0 {
		out(fmt.Sprintf("holds (%d of %d clauses not evaluable at run time)", unknowns, len(rf.Ensures)))
		return
	}
	out("holds")
}
