package govcrt

// Expression language of the contracts: AST, lexer, parser.  Shared between the VC generator
// (package govc) and the replay runtime that is injected into /repo's test build via -overlay.

import (
	"fmt"
	"strconv"
	"strings"
)

// ---------- expression AST ----------

type Expr struct {
	Kind string // ident, int, bool, nil, unary, binary, call, index, slice, field, cond, forall, exists, old, str
	Name string // ident name, operator, field name, call name
	Int  string
	Args []*Expr
	// quantifiers
	Vars  []string
	VType string
	VTypes []string
	Pos   string
	// optional triggers of a quantifier: forall k int :: { t1, t2 } { t3 } body
	Triggers [][]*Expr
}

func (e *Expr) String() string {
	switch e.Kind {
	case "ident":
		return e.Name
	case "int":
		return e.Int
	case "bool":
		return e.Name
	case "nil":
		return "nil"
	case "str":
		return strconv.Quote(e.Name)
	case "unary":
		return e.Name + e.Args[0].String()
	case "binary":
		return "(" + e.Args[0].String() + " " + e.Name + " " + e.Args[1].String() + ")"
	case "call":
		var as []string
		for _, a := range e.Args {
			as = append(as, a.String())
		}
		return e.Name + "(" + strings.Join(as, ", ") + ")"
	case "index":
		return e.Args[0].String() + "[" + e.Args[1].String() + "]"
	case "slice":
		s := e.Args[0].String() + "["
		if e.Args[1] != nil {
			s += e.Args[1].String()
		}
		s += ":"
		if e.Args[2] != nil {
			s += e.Args[2].String()
		}
		return s + "]"
	case "field":
		return e.Args[0].String() + "." + e.Name
	case "cond":
		return "(" + e.Args[0].String() + " ? " + e.Args[1].String() + " : " + e.Args[2].String() + ")"
	case "forall", "exists":
		return "(" + e.Kind + " " + strings.Join(e.Vars, ", ") + " " + e.VType + " :: " + e.Args[0].String() + ")"
	case "old":
		return "old(" + e.Args[0].String() + ")"
	}
	return "?"
}

// ---------- lexer ----------

type tok struct {
	k string // id, int, op, str, eof
	s string
}

func lex(src string) ([]tok, error) {
	var out []tok
	i := 0
	ops := []string{"<==>", "==>", "::", "<<", ">>", "&&", "||", "==", "!=", "<=", ">=", "&^", "..",
		"+", "-", "*", "/", "%", "&", "|", "^", "<", ">", "!", "(", ")", "[", "]", ",", ".", "?", ":", ";", "{", "}"}
	for i < len(src) {
		c := src[i]
		if c == ' ' || c == '\t' || c == '\n' {
			i++
			continue
		}
		if c == '/' && i+1 < len(src) && src[i+1] == '/' {
			break // trailing comment
		}
		if c >= '0' && c <= '9' {
			j := i
			for j < len(src) && (src[j] >= '0' && src[j] <= '9' || src[j] >= 'a' && src[j] <= 'f' || src[j] >= 'A' && src[j] <= 'F' || src[j] == 'x' || src[j] == '_') {
				j++
			}
			out = append(out, tok{"int", strings.ReplaceAll(src[i:j], "_", "")})
			i = j
			continue
		}
		if c == '_' || c >= 'a' && c <= 'z' || c >= 'A' && c <= 'Z' {
			j := i
			for j < len(src) && (src[j] == '_' || src[j] == '$' || src[j] >= 'a' && src[j] <= 'z' || src[j] >= 'A' && src[j] <= 'Z' || src[j] >= '0' && src[j] <= '9') {
				j++
			}
			out = append(out, tok{"id", src[i:j]})
			i = j
			continue
		}
		if c == '"' {
			j := i + 1
			for j < len(src) && src[j] != '"' {
				if src[j] == '\\' {
					j++
				}
				j++
			}
			s, err := strconv.Unquote(src[i : j+1])
			if err != nil {
				return nil, fmt.Errorf("bad string literal in %q", src)
			}
			out = append(out, tok{"str", s})
			i = j + 1
			continue
		}
		matched := false
		for _, op := range ops {
			if strings.HasPrefix(src[i:], op) {
				out = append(out, tok{"op", op})
				i += len(op)
				matched = true
				break
			}
		}
		if !matched {
			return nil, fmt.Errorf("unexpected character %q in %q", c, src)
		}
	}
	out = append(out, tok{"eof", ""})
	return out, nil
}

type parser struct {
	toks []tok
	p    int
	src  string
}

func (p *parser) peek() tok { return p.toks[p.p] }
func (p *parser) next() tok { t := p.toks[p.p]; p.p++; return t }
func (p *parser) isOp(s string) bool {
	t := p.peek()
	return t.k == "op" && t.s == s
}
func (p *parser) accept(s string) bool {
	if p.isOp(s) {
		p.p++
		return true
	}
	return false
}
func (p *parser) expect(s string) {
	if !p.accept(s) {
		panic(fmt.Errorf("expected %q at token %d (%q) in %q", s, p.p, p.peek().s, p.src))
	}
}

func ParseExpr(src string) (e *Expr, err error) {
	toks, err := lex(src)
	if err != nil {
		return nil, err
	}
	p := &parser{toks: toks, src: src}
	defer func() {
		if r := recover(); r != nil {
			if er, ok := r.(error); ok {
				err = er
				return
			}
			panic(r)
		}
	}()
	e = p.parseTop()
	if p.peek().k != "eof" {
		return nil, fmt.Errorf("trailing tokens at %q in %q", p.peek().s, src)
	}
	return e, nil
}

func (p *parser) parseTop() *Expr {
	t := p.peek()
	if t.k == "id" && (t.s == "forall" || t.s == "exists") {
		p.next()
		var vars []string
		var vtypes []string
		isType := func(s string) bool {
			switch s {
			case "int", "bool", "u8", "u16", "u32", "u64", "ref", "slice", "str", "row":
				return true
			}
			return false
		}
		pending := 0
		for {
			v := p.next()
			if v.k != "id" {
				panic(fmt.Errorf("expected bound variable in %q", p.src))
			}
			vars = append(vars, v.s)
			vtypes = append(vtypes, "")
			pending++
			if nt := p.peek(); nt.k == "id" && isType(nt.s) {
				p.next()
				for i := len(vtypes) - pending; i < len(vtypes); i++ {
					vtypes[i] = nt.s
				}
				pending = 0
			}
			if !p.accept(",") {
				break
			}
		}
		for i := range vtypes {
			if vtypes[i] == "" {
				vtypes[i] = "int"
			}
		}
		vt := vtypes[len(vtypes)-1]
		p.expect("::")
		var trigs [][]*Expr
		for p.isOp("{") {
			p.next()
			var grp []*Expr
			for !p.isOp("}") {
				grp = append(grp, p.parseTop())
				if !p.accept(",") {
					break
				}
			}
			p.expect("}")
			trigs = append(trigs, grp)
		}
		body := p.parseTop()
		return &Expr{Kind: t.s, Vars: vars, VType: vt, VTypes: vtypes, Args: []*Expr{body}, Triggers: trigs}
	}
	return p.parseIff()
}

func (p *parser) parseIff() *Expr {
	l := p.parseImplies()
	for p.accept("<==>") {
		r := p.parseImplies()
		l = &Expr{Kind: "binary", Name: "<==>", Args: []*Expr{l, r}}
	}
	return l
}

func (p *parser) parseImplies() *Expr {
	l := p.parseCond()
	if p.accept("==>") {
		var r *Expr
		if t := p.peek(); t.k == "id" && (t.s == "forall" || t.s == "exists") {
			r = p.parseTop()
		} else {
			r = p.parseImplies()
		}
		return &Expr{Kind: "binary", Name: "==>", Args: []*Expr{l, r}}
	}
	return l
}

func (p *parser) parseCond() *Expr {
	c := p.parseBin(0)
	if p.accept("?") {
		a := p.parseCond()
		p.expect(":")
		b := p.parseCond()
		return &Expr{Kind: "cond", Args: []*Expr{c, a, b}}
	}
	return c
}

var binPrec = []map[string]bool{
	{"||": true},
	{"&&": true},
	{"==": true, "!=": true, "<": true, "<=": true, ">": true, ">=": true},
	{"+": true, "-": true, "|": true, "^": true},
	{"*": true, "/": true, "%": true, "<<": true, ">>": true, "&": true, "&^": true},
}

func (p *parser) parseBin(level int) *Expr {
	if level >= len(binPrec) {
		return p.parseUnary()
	}
	l := p.parseBin(level + 1)
	for {
		t := p.peek()
		if t.k == "op" && binPrec[level][t.s] {
			p.next()
			r := p.parseBin(level + 1)
			l = &Expr{Kind: "binary", Name: t.s, Args: []*Expr{l, r}}
			continue
		}
		return l
	}
}

func (p *parser) parseUnary() *Expr {
	t := p.peek()
	if t.k == "op" && (t.s == "!" || t.s == "-" || t.s == "^") {
		p.next()
		x := p.parseUnary()
		return &Expr{Kind: "unary", Name: t.s, Args: []*Expr{x}}
	}
	return p.parsePostfix()
}

func (p *parser) parsePostfix() *Expr {
	e := p.parsePrimary()
	for {
		switch {
		case p.accept("."):
			n := p.next()
			if n.k != "id" && n.k != "int" {
				panic(fmt.Errorf("expected field name in %q", p.src))
			}
			e = &Expr{Kind: "field", Name: n.s, Args: []*Expr{e}}
		case p.accept("["):
			var lo, hi *Expr
			if !p.isOp(":") {
				lo = p.parseTop()
			}
			if p.accept(":") {
				if !p.isOp("]") {
					hi = p.parseTop()
				}
				p.expect("]")
				e = &Expr{Kind: "slice", Args: []*Expr{e, lo, hi}}
			} else {
				p.expect("]")
				e = &Expr{Kind: "index", Args: []*Expr{e, lo}}
			}
		case p.isOp("(") && (e.Kind == "ident" || e.Kind == "field"):
			p.next()
			var args []*Expr
			for !p.isOp(")") {
				args = append(args, p.parseTop())
				if !p.accept(",") {
					break
				}
			}
			p.expect(")")
			name := e.Name
			if e.Kind == "field" {
				name = e.Args[0].String() + "." + e.Name
			}
			if name == "old" && len(args) == 1 {
				e = &Expr{Kind: "old", Args: args}
			} else {
				e = &Expr{Kind: "call", Name: name, Args: args}
			}
		default:
			return e
		}
	}
}

func (p *parser) parsePrimary() *Expr {
	t := p.next()
	switch t.k {
	case "int":
		return &Expr{Kind: "int", Int: t.s}
	case "str":
		return &Expr{Kind: "str", Name: t.s}
	case "id":
		switch t.s {
		case "true", "false":
			return &Expr{Kind: "bool", Name: t.s}
		case "nil":
			return &Expr{Kind: "nil"}
		}
		return &Expr{Kind: "ident", Name: t.s}
	case "op":
		if t.s == "(" {
			e := p.parseTop()
			p.expect(")")
			return e
		}
	}
	panic(fmt.Errorf("unexpected token %q in %q", t.s, p.src))
}

