package govc

import (
	"flag"
	"fmt"
	"os"
	"sort"
	"strings"
	"time"
)

var defaultPatterns = []string{"./pkg/bitio", "./pkg/ranges", "./internal/bitiox", "./internal/mathx", "./pkg/decode", "./pkg/interp",
	"./internal/aheadreadseeker", "./internal/progressreadseeker", "./format/inet/flowsdecoder", "./internal/hexpairwriter", "./internal/asciiwriter",
	"./internal/gojqx", "./format/toml", "./format/xml", "./format/yaml", "./format/csv", "./format/crypto", "./format/text", "./format/json", "./internal/columnwriter", "./format/pcap", "./internal/colorjson"}

func Main(args []string) int {
	if len(args) == 0 {
		fmt.Fprintln(os.Stderr, "usage: govc verify|check|replay ...")
		return 2
	}
	switch args[0] {
	case "verify":
		return cmdVerify(args[1:])
	case "check":
		return cmdCheck(args[1:])
	case "replay":
		return cmdReplay(args[1:])
	case "ssa":
		return cmdSSA(args[1:])
	case "funcs":
		return cmdFuncs(args[1:])
	}
	fmt.Fprintln(os.Stderr, "unknown command", args[0])
	return 2
}

// cmdFuncs lists ssa function names containing the given substrings (developer aid).
func cmdFuncs(args []string) int {
	fs := flag.NewFlagSet("funcs", flag.ExitOnError)
	repo := fs.String("repo", "/repo", "")
	pk := fs.String("pkg", strings.Join(defaultPatterns, ","), "")
	fs.Parse(args)
	e, err := Load(*repo, strings.Split(*pk, ","), nil)
	if err != nil {
		fmt.Fprintln(os.Stderr, err)
		return 2
	}
	e.funcByString("")
	var names []string
	for n := range funcIndex {
		for _, a := range fs.Args() {
			if strings.Contains(n, a) {
				names = append(names, n)
			}
		}
	}
	sort.Strings(names)
	for _, n := range names {
		fmt.Println(n, len(funcIndex[n].Blocks))
	}
	return 0
}

func cmdSSA(args []string) int {
	fs := flag.NewFlagSet("ssa", flag.ExitOnError)
	repo := fs.String("repo", "/repo", "")
	pk := fs.String("pkg", strings.Join(defaultPatterns, ","), "")
	fs.Parse(args)
	e, err := Load(*repo, strings.Split(*pk, ","), nil)
	if err != nil {
		fmt.Fprintln(os.Stderr, err)
		return 2
	}
	for _, name := range fs.Args() {
		found := false
		for _, cf := range append([]string{""}, sortedKeys(e.PPkgs)...) {
			if f := e.FindFunc(cf, name); f != nil {
				f.WriteTo(os.Stdout)
				for _, a := range f.AnonFuncs {
					a.WriteTo(os.Stdout)
				}
				found = true
				break
			}
		}
		if !found {
			fmt.Println("not found:", name)
		}
	}
	return 0
}

// cmdVerify: developer command, verifies named functions (or all with contracts) and prints every obligation.
func cmdVerify(args []string) int {
	fs := flag.NewFlagSet("verify", flag.ExitOnError)
	repo := fs.String("repo", "/repo", "")
	pk := fs.String("pkg", strings.Join(defaultPatterns, ","), "")
	spec := fs.String("spec", "/verif/spec", "")
	tmp := fs.String("tmp", "", "")
	timeout := fs.Int("timeout", 10, "")
	keep := fs.Bool("keep", false, "")
	verbose := fs.Bool("v", false, "")
	only := fs.String("only", "", "substring filter on obligation names")
	fs.Parse(args)
	t0 := time.Now()
	e, err := Load(*repo, strings.Split(*pk, ","), []string{*spec})
	if err != nil {
		fmt.Fprintln(os.Stderr, err)
		return 2
	}
	fmt.Fprintf(os.Stderr, "loaded in %.1fs, %d contracts\n", time.Since(t0).Seconds(), len(e.Order))
	dir := *tmp
	if dir == "" {
		dir, _ = os.MkdirTemp("", "govc")
		if !*keep {
			defer os.RemoveAll(dir)
		}
	}
	var keys []string
	for _, k := range e.Order {
		if len(fs.Args()) == 0 {
			keys = append(keys, k)
			continue
		}
		for _, a := range fs.Args() {
			if strings.Contains(k, a) {
				keys = append(keys, k)
				break
			}
		}
	}
	rc := 0
	for _, k := range keys {
		t1 := time.Now()
		vcs, res := e.GenFunc(k)
		if res.Err != "" {
			fmt.Printf("== %s: %s\n", k, res.Err)
			rc = 2
			continue
		}
		var jobs []solveJob
		for _, vc := range vcs {
			for _, o := range vc.Obls {
				if *only != "" && !strings.Contains(o.Name+"@"+o.Case, *only) {
					o.Folded = true
					o.Result = "skipped"
				}
				jobs = append(jobs, solveJob{vc: vc, o: o})
			}
		}
		gen := time.Since(t1).Seconds()
		e.Solve(jobs, SolverCfg{TmpDir: dir, TimeoutS: *timeout, KeepFiles: *keep})
		bad := 0
		byRes := map[string]int{}
		for _, o := range res.Obls {
			want := "unsat"
			if o.Kind == "pre-sat" || o.Kind == "vacuity" {
				want = "sat"
			}
			byRes[o.Result]++
			if o.Result != want && o.Result != "skipped" {
				bad++
				if *verbose || o.Result == "unknown" {
					// diagnosis: is the goal provable from the quantifier-free hypotheses alone?
					var vcOf *VC
					for _, vc := range vcs {
						for _, oo := range vc.Obls {
							if oo == o {
								vcOf = vc
							}
						}
					}
					if vcOf != nil && want == "unsat" {
						c := *vcOf
						c.Approx = true
						c.Assumes = make([]*Term, len(vcOf.Assumes))
						for i, a := range vcOf.Assumes {
							c.Assumes[i] = stripQuantified(a)
						}
						text := e.script(&c, o, nil, nil)
						f := dir + "/approx.smt2"
						os.WriteFile(f, []byte(text), 0o644)
						r, _, _ := runSolver("z3-new", f, 5)
						o.Detail += " [qf-approx: " + r + "]"
					}
				}
				fmt.Printf("   FAIL %-40s %-8s %-7s %5.2fs %s  %s | %s\n", o.Name+"@"+o.Case, o.Result, o.Solver, o.Seconds, o.Pos, o.Detail, firstLineOf(o.Output))
			} else if *verbose {
				fmt.Printf("   ok   %-40s %-8s %-7s %5.2fs %s  %s\n", o.Name+"@"+o.Case, o.Result, o.Solver, o.Seconds, o.Pos, o.Detail)
			}
		}
		fmt.Printf("== %s: %d obligations, %d failed %v (gen %.1fs, total %.1fs)\n", res.Short, len(res.Obls), bad, byRes, gen, time.Since(t1).Seconds())
		if bad > 0 {
			rc = 1
		}
	}
	for _, n := range sortedKeys(e.Notes) {
		fmt.Println("note:", n)
	}
	return rc
}

func firstLineOf(s string) string {
	s = strings.TrimSpace(s)
	if i := strings.Index(s, "\n"); i >= 0 {
		s = s[:i]
	}
	if len(s) > 100 {
		s = s[:100]
	}
	return s
}

