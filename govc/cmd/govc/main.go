package main

import (
	"os"

	"govc"
)

func main() { os.Exit(govc.Main(os.Args[1:])) }
