package govc

// Bounded stand-ins: executions of the real code over a stated finite bound, for clauses that are
// outside the deductive reach.  Always labelled bounded in the evidence; never counted as discharged.

import (
	"bytes"
	"context"
	"encoding/json"
	"fmt"
	"os"
	"os/exec"
	"path/filepath"
	"regexp"
	"strconv"
	"strings"
	"time"
)

type Standin struct {
	Property   string `json:"property"`
	Name       string `json:"name"`
	PackageDir string `json:"package_dir"`
	File       string `json:"file"`
	Run        string `json:"run"`
	Bound      string `json:"bound"`
	What       string `json:"what"`
}

type StandinResult struct {
	Name        string   `json:"name"`
	Bound       string   `json:"bound"`
	What        string   `json:"what"`
	Evaluations int      `json:"evaluations"`
	Failures    int      `json:"failures"`
	Known       int      `json:"known_finding_failures"`
	Unknown     []string `json:"unlisted_failures,omitempty"`
	Error       string   `json:"error,omitempty"`
	Seconds     float64  `json:"seconds"`
	KnownLines  []string `json:"-"`
}

var standinFailRe = regexp.MustCompile(`^STANDIN-FAIL (\S+) class=(\S+) (.*)$`)
var standinSumRe = regexp.MustCompile(`^STANDIN (\S+) evaluations=(\d+) failures=(\d+)`)

// standinTier is handed to the stand-in tests (VERIF_TIER): "thorough" widens their bounds.
var standinTier = "quick"

func runStandins(repo, vd, prop, tmp string, known *KnownFile) []*StandinResult {
	var all []Standin
	if err := loadJSON(filepath.Join(vd, "standins", "standins.json"), &all); err != nil {
		return nil
	}
	var out []*StandinResult
	for _, s := range all {
		if s.Property != prop {
			continue
		}
		t0 := time.Now()
		r := &StandinResult{Name: s.Name, Bound: s.Bound, What: s.What}
		out = append(out, r)
		odir, _ := os.MkdirTemp(tmp, "standin")
		overlay := map[string]string{filepath.Join(repo, s.PackageDir, "zz_govc_"+s.File): filepath.Join(vd, "standins", s.File)}
		ov, _ := json.Marshal(map[string]any{"Replace": overlay})
		ovFile := filepath.Join(odir, "overlay.json")
		os.WriteFile(ovFile, ov, 0o644)
		ctx, cancel := context.WithTimeout(context.Background(), 300*time.Second)
		cmd := exec.CommandContext(ctx, "go", "test", "-overlay", ovFile, "-vet=off", "-count=1", "-timeout", "280s", "-run", s.Run, "-v", "./"+s.PackageDir)
		cmd.Dir = repo
		cmd.Env = append(os.Environ(), "GOFLAGS=-mod=mod", "GOPROXY=off", "GOSUMDB=off", "GOTOOLCHAIN=local", "VERIF_TIER="+standinTier)
		var buf bytes.Buffer
		cmd.Stdout = &buf
		cmd.Stderr = &buf
		_ = cmd.Run()
		cancel()
		r.Seconds = round3(time.Since(t0).Seconds())
		sawSummary := false
		for _, line := range strings.Split(buf.String(), "\n") {
			if m := standinSumRe.FindStringSubmatch(line); m != nil && m[1] == s.Name {
				r.Evaluations, _ = strconv.Atoi(m[2])
				r.Failures, _ = strconv.Atoi(m[3])
				sawSummary = true
			}
			if m := standinFailRe.FindStringSubmatch(line); m != nil && m[1] == s.Name {
				listed := false
				for _, kf := range known.Findings {
					if kf.Status != "fixed" && kf.Property == prop && kf.Function == "standin:"+s.Name && kf.Obligation == m[2] {
						listed = true
						r.Known++
						if len(r.KnownLines) == 0 {
							r.KnownLines = append(r.KnownLines, fmt.Sprintf("standin:%s class=%s %s", s.Name, m[2], kf.What))
						}
					}
				}
				if !listed {
					r.Unknown = append(r.Unknown, "class="+m[2]+" "+m[3])
				}
			}
		}
		if !sawSummary {
			r.Error = "stand-in did not complete: " + truncate(buf.String(), 1500)
		}
	}
	return out
}
