package govc

// Replay of solver models on the real code (DESIGN §3.9).

import (
	"bytes"
	"context"
	"encoding/json"
	"fmt"
	"go/types"
	"math/big"
	"os"
	"os/exec"
	"path/filepath"
	"regexp"
	"strings"
	"time"

	"golang.org/x/tools/go/ssa"

	"govc/govcrt"
)

type ReplayResult struct {
	Reproduced bool
	Outcome    string
	Log        string
}

// valuePlan: how to read one Go value out of a model.
type valuePlan struct {
	kind   string // int, uint, bool, slice, struct, ptr, iface, str, skip
	term   *Term
	w      int
	fields []fieldPlan
	elemT  types.Type
	// slice
	arr, off, ln, cp *Term
	elems            []*valuePlan
	// ptr
	obj *valuePlan
	// iface stub
	rlen *Term
	rbit []*Term
	cur  *Term
	ty   types.Type
	// any: dynamic type id and the candidate concrete values
	dyn      *Term
	variants []anyVariant
}

// anyVariant: one concrete dynamic type an empty-interface value can have in a replay.
type anyVariant struct {
	id   int64
	name string // reflect-style name understood by the replay runtime
	p    *valuePlan
}

type fieldPlan struct {
	name string
	p    *valuePlan
}

const maxElems = 96

func (e *Engine) planValue(x *Exec, t *Term, ty types.Type, depth int, nElems int) *valuePlan {
	if depth > 3 {
		return &valuePlan{kind: "skip"}
	}
	if _, isFn := ty.Underlying().(*types.Signature); isFn {
		// a callback parameter: replayed as a function that does nothing and returns zero values
		return &valuePlan{kind: "func"}
	}
	switch u := ty.Underlying().(type) {
	case *types.Basic:
		switch {
		case u.Info()&types.IsBoolean != 0:
			return &valuePlan{kind: "bool", term: t}
		case u.Info()&types.IsInteger != 0:
			if t.S.K == KInt {
				return &valuePlan{kind: "int", term: t}
			}
			return &valuePlan{kind: "uint", term: t, w: t.S.W}
		case u.Info()&types.IsString != 0:
			e.DeclareUF("strlen", SInt, SStr)
			return &valuePlan{kind: "str", term: t, ln: App("strlen", SInt, t)}
		}
	case *types.Slice:
		p := &valuePlan{kind: "slice", arr: SArr(t), off: SOff(t), ln: SLen(t), cp: SCap(t), elemT: u.Elem()}
		es := e.SortOf(u.Elem())
		m, ok := x.heap0[memComp(es)]
		if ok {
			row := Select(m, SArr(t))
			for k := 0; k < nElems; k++ {
				p.elems = append(p.elems, e.planValue(x, Select(row, ElemIdx(SOff(t), IntLit(int64(k)), es)), u.Elem(), depth+1, 8))
			}
		}
		return p
	case *types.Struct:
		p := &valuePlan{kind: "struct"}
		for i := 0; i < u.NumFields(); i++ {
			p.fields = append(p.fields, fieldPlan{u.Field(i).Name(), e.planValue(x, StructSel(t, i), u.Field(i).Type(), depth+1, 16)})
		}
		return p
	case *types.Pointer:
		st, ok := u.Elem().Underlying().(*types.Struct)
		if !ok {
			return &valuePlan{kind: "skip"}
		}
		p := &valuePlan{kind: "ptr", term: t, ty: u.Elem()}
		p.obj = e.planObject(x, t, u.Elem(), st, depth)
		return p
	case *types.Interface:
		if u.NumMethods() == 0 && depth < 3 {
			// an empty-interface value (jq value): its dynamic type decides what is built
			e.DeclareUF("dyntype", SInt, SInt)
			p := &valuePlan{kind: "any", term: t, dyn: App("dyntype", SInt, t)}
			cands := []struct {
				name string
				ty   types.Type
			}{
				{"int", types.Typ[types.Int]}, {"string", types.Typ[types.String]}, {"bool", types.Typ[types.Bool]},
				{"[]interface {}", types.NewSlice(types.NewInterfaceType(nil, nil))},
			}
			for _, c := range cands {
				id, ok := typeIDs[c.ty.String()]
				if !ok {
					continue
				}
				srt := e.SortOf(c.ty)
				bn := "box$" + srt.Short()
				e.DeclareUF(bn, srt, SInt)
				p.variants = append(p.variants, anyVariant{id: int64(id), name: c.name, p: e.planValue(x, App(bn, srt, t), c.ty, depth+1, 8)})
			}
			return p
		}
		p := &valuePlan{kind: "iface", term: t}
		hasM := func(name string) bool {
			for i := 0; i < u.NumMethods(); i++ {
				if u.Method(i).Name() == name {
					return true
				}
			}
			return false
		}
		if hasM("Read") && !hasM("ReadBits") {
			// abstract file
			if _, ok := e.ufuncs["FLen"]; ok {
				p.kind = "file"
				p.rlen = App("FLen", SInt, t)
				if _, ok := e.ufuncs["FByte"]; ok {
					for k := 0; k < 64; k++ {
						p.rbit = append(p.rbit, App("FByte", SBV(8), t, IntLit(int64(k))))
					}
				} else if _, ok := e.ufuncs["FBit"]; ok {
					for k := 0; k < 512; k++ {
						p.rbit = append(p.rbit, App("FBit", SBool, t, IntLit(int64(k))))
					}
					p.w = 1
				}
				if m, ok := x.heap0["G$fpos"]; ok {
					p.cur = Select(m, t)
				}
				return p
			}
		}
		if _, ok := e.ufuncs["RLen"]; ok {
			p.rlen = App("RLen", SInt, t)
			if _, ok := e.ufuncs["RBit"]; ok {
				for k := 0; k < 256; k++ {
					p.rbit = append(p.rbit, App("RBit", SBool, t, IntLit(int64(k))))
				}
			}
			if m, ok := x.heap0["G$cursor"]; ok {
				p.cur = Select(m, t)
			}
		}
		return p
	}
	return &valuePlan{kind: "skip"}
}

func (e *Engine) planObject(x *Exec, ref *Term, t types.Type, st *types.Struct, depth int) *valuePlan {
	p := &valuePlan{kind: "struct"}
	for i := 0; i < st.NumFields(); i++ {
		f := st.Field(i)
		if inner, ok := f.Type().Underlying().(*types.Struct); ok {
			p.fields = append(p.fields, fieldPlan{f.Name(), e.planObject(x, x.embRef(t, f.Name(), ref), f.Type(), inner, depth+1)})
			continue
		}
		pl := x.fieldPlace(t, i, ref)
		m, ok := x.heap0[pl.Comp]
		if !ok {
			p.fields = append(p.fields, fieldPlan{f.Name(), &valuePlan{kind: "skip"}})
			continue
		}
		p.fields = append(p.fields, fieldPlan{f.Name(), e.planValue(x, Select(m, ref), f.Type(), depth+1, 64)})
	}
	return p
}

func (p *valuePlan) terms(out *[]*Term) {
	switch p.kind {
	case "int", "uint", "bool":
		*out = append(*out, p.term)
	case "slice":
		*out = append(*out, p.arr, p.off, p.ln, p.cp)
		for _, e := range p.elems {
			e.terms(out)
		}
	case "struct":
		for _, f := range p.fields {
			f.p.terms(out)
		}
	case "ptr":
		*out = append(*out, p.term)
		p.obj.terms(out)
	case "str":
		*out = append(*out, p.ln)
	case "any":
		*out = append(*out, p.term, p.dyn)
		for _, v := range p.variants {
			v.p.terms(out)
		}
	case "iface", "file":
		*out = append(*out, p.term)
		if p.rlen != nil {
			*out = append(*out, p.rlen)
			*out = append(*out, p.rbit...)
		}
		if p.cur != nil {
			*out = append(*out, p.cur)
		}
	}
}

var negRe = regexp.MustCompile(`^\(-\s*(\d+)\)$`)

func modelInt(s string) (*big.Int, bool) {
	s = strings.TrimSpace(s)
	if m := negRe.FindStringSubmatch(s); m != nil {
		b, ok := new(big.Int).SetString(m[1], 10)
		if ok {
			b.Neg(b)
		}
		return b, ok
	}
	if strings.HasPrefix(s, "#x") {
		return new(big.Int).SetString(s[2:], 16)
	}
	if strings.HasPrefix(s, "#b") {
		return new(big.Int).SetString(s[2:], 2)
	}
	return new(big.Int).SetString(s, 10)
}

type modelReader struct {
	vals map[string]string
	objs map[string]*govcrt.JVal
	arrs map[string]bool
}

func (mr *modelReader) get(t *Term) (string, bool) {
	if t.IsLit() {
		switch t.Op {
		case "true", "false":
			return t.Op, true
		}
		return t.String(), true
	}
	v, ok := mr.vals[t.String()]
	return v, ok
}

func (mr *modelReader) read(p *valuePlan) (*govcrt.JVal, string) {
	switch p.kind {
	case "int", "uint":
		s, ok := mr.get(p.term)
		if !ok {
			return &govcrt.JVal{Int: "0"}, ""
		}
		b, ok := modelInt(s)
		if !ok {
			return nil, "unparsed model value " + s
		}
		return &govcrt.JVal{Int: b.String()}, ""
	case "bool":
		s, _ := mr.get(p.term)
		b := s == "true"
		return &govcrt.JVal{Bool: &b}, ""
	case "str":
		// the solvers treat strings as an uninterpreted sort: only the length is taken from the model
		n := 0
		if ls, ok := mr.get(p.ln); ok {
			if l, ok := modelInt(ls); ok && l.IsInt64() && l.Int64() >= 0 && l.Int64() <= 1<<12 {
				n = int(l.Int64())
			}
		}
		str := strings.Repeat("a", n)
		return &govcrt.JVal{Str: &str}, ""
	case "any":
		ts, _ := mr.get(p.term)
		if tv, ok := modelInt(ts); !ok || tv.Sign() == 0 {
			return &govcrt.JVal{Nil: true}, ""
		}
		ds, _ := mr.get(p.dyn)
		dv, ok := modelInt(ds)
		if !ok {
			return &govcrt.JVal{Nil: true}, ""
		}
		for _, v := range p.variants {
			if v.id == dv.Int64() {
				inner, why := mr.read(v.p)
				if inner == nil {
					return nil, why
				}
				return &govcrt.JVal{AnyType: v.name, Inner: inner}, ""
			}
		}
		return nil, fmt.Sprintf("dynamic type id %s of an interface value has no replay builder", dv)
	case "slice":
		as, _ := mr.get(p.arr)
		a, _ := modelInt(as)
		ls, _ := mr.get(p.ln)
		l, _ := modelInt(ls)
		cs, _ := mr.get(p.cp)
		c, _ := modelInt(cs)
		os_, _ := mr.get(p.off)
		o, _ := modelInt(os_)
		if a == nil || l == nil || c == nil || o == nil {
			return nil, "slice header missing from model"
		}
		if a.Sign() == 0 {
			return &govcrt.JVal{Nil: true}, ""
		}
		if l.Cmp(big.NewInt(1<<16)) > 0 || o.Cmp(big.NewInt(1<<16)) > 0 {
			return nil, fmt.Sprintf("slice of %s elements at offset %s is too large to replay", l, o)
		}
		ln := int(l.Int64())
		cp := ln
		if c.Cmp(big.NewInt(1<<16)) <= 0 {
			cp = int(c.Int64())
		}
		j := &govcrt.JVal{Len: &ln, Cap: &cp, Off: int(o.Int64()), Ref: "arr" + a.String()}
		if mr.arrs[j.Ref] {
			j.Alias = j.Ref
		}
		mr.arrs[j.Ref] = true
		if ln > len(p.elems) && len(p.elems) > 0 {
			return nil, fmt.Sprintf("need-more-elems %d", ln)
		}
		for k := 0; k < ln && k < len(p.elems); k++ {
			ev, why := mr.read(p.elems[k])
			if ev == nil {
				return nil, why
			}
			j.Elems = append(j.Elems, ev)
		}
		return j, ""
	case "struct":
		j := &govcrt.JVal{Fields: map[string]*govcrt.JVal{}}
		for _, f := range p.fields {
			if f.p.kind == "skip" {
				continue
			}
			fv, why := mr.read(f.p)
			if fv == nil {
				return nil, "field " + f.name + ": " + why
			}
			j.Fields[f.name] = fv
		}
		return j, ""
	case "ptr":
		s, _ := mr.get(p.term)
		r, _ := modelInt(s)
		if r == nil || r.Sign() == 0 {
			return &govcrt.JVal{Nil: true}, ""
		}
		id := "obj" + r.String()
		if _, ok := mr.objs[id]; !ok {
			mr.objs[id] = &govcrt.JVal{}
			ov, why := mr.read(p.obj)
			if ov == nil {
				return nil, why
			}
			mr.objs[id] = ov
		}
		return &govcrt.JVal{Ref: id}, ""
	case "file":
		s, _ := mr.get(p.term)
		r, _ := modelInt(s)
		if r == nil || r.Sign() == 0 {
			return &govcrt.JVal{Nil: true}, ""
		}
		ls, _ := mr.get(p.rlen)
		l, _ := modelInt(ls)
		if l == nil {
			l = big.NewInt(0)
		}
		if l.Cmp(big.NewInt(64)) > 0 {
			return nil, fmt.Sprintf("abstract file of %s bytes is too large to replay", l)
		}
		var sb strings.Builder
		n := int(l.Int64())
		if p.w == 1 {
			for k := 0; k < 8*n && k < len(p.rbit); k++ {
				v, _ := mr.get(p.rbit[k])
				if v == "true" {
					sb.WriteByte('1')
				} else {
					sb.WriteByte('0')
				}
			}
		} else {
			for k := 0; k < n && k < len(p.rbit); k++ {
				v, _ := mr.get(p.rbit[k])
				b, _ := modelInt(v)
				if b == nil {
					b = big.NewInt(0)
				}
				sb.WriteString(fmt.Sprintf("%08b", b.Int64()&0xff))
			}
		}
		st := &govcrt.Stub{Kind: "file", Bits: sb.String()}
		if p.cur != nil {
			if cs, ok := mr.get(p.cur); ok {
				if c, ok := modelInt(cs); ok && c.IsInt64() {
					st.Cur = c.Int64()
				}
			}
		}
		return &govcrt.JVal{Stub: st}, ""
	case "iface":
		s, _ := mr.get(p.term)
		r, _ := modelInt(s)
		if r == nil || r.Sign() == 0 {
			return &govcrt.JVal{Nil: true}, ""
		}
		if p.rlen == nil {
			return nil, "interface value without an abstract view"
		}
		ls, _ := mr.get(p.rlen)
		l, _ := modelInt(ls)
		if l == nil {
			l = big.NewInt(0)
		}
		if l.Cmp(big.NewInt(int64(len(p.rbit)))) > 0 {
			return nil, fmt.Sprintf("abstract source of %s bits is too large to replay", l)
		}
		var sb strings.Builder
		for k := 0; k < int(l.Int64()); k++ {
			v, _ := mr.get(p.rbit[k])
			if v == "true" {
				sb.WriteByte('1')
			} else {
				sb.WriteByte('0')
			}
		}
		st := &govcrt.Stub{Kind: "bits", Bits: sb.String()}
		if p.cur != nil {
			if cs, ok := mr.get(p.cur); ok {
				if c, ok := modelInt(cs); ok && c.IsInt64() {
					st.Cur = c.Int64()
				}
			}
		}
		return &govcrt.JVal{Stub: st}, ""
	}
	if p.kind == "func" {
		return &govcrt.JVal{Func: true}, ""
	}
	return nil, "value kind " + p.kind + " is not replayed"
}

func targetExpr(fn *ssa.Function) (string, bool) {
	if fn.Parent() != nil || fn.Origin() != nil || fn.TypeParams().Len() > 0 {
		return "", false
	}
	if recv := fn.Signature.Recv(); recv != nil {
		rt := recv.Type()
		ptr := false
		if p, ok := rt.(*types.Pointer); ok {
			rt, ptr = p.Elem(), true
		}
		n, ok := rt.(*types.Named)
		if !ok {
			return "", false
		}
		if ptr {
			return fmt.Sprintf("(*%s).%s", n.Obj().Name(), fn.Name()), true
		}
		return fmt.Sprintf("%s.%s", n.Obj().Name(), fn.Name()), true
	}
	return fn.Name(), true
}

func (e *Engine) tryReplay(vc *VC, o *Obligation, fres *FuncResult, repo string, cfg SolverCfg, rfile string, prop string) ReplayResult {
	fnKey := fres.Key
	if i := variantSep(fnKey); i >= 0 {
		fnKey = fnKey[:i]
	}
	fn := e.funcByString(fnKey)
	con := fres.Contract
	rf := &govcrt.ReplayFile{Property: prop, Function: fres.Key, Obligation: o.Name, Kind: o.Kind, Clause: o.Detail, Case: o.Case,
		SolverOut: truncate(o.Output, 4000), Solver: o.Solver}
	if fn != nil && fn.Pkg != nil {
		rf.Package = fn.Pkg.Pkg.Path()
	}
	for _, r := range con.Requires {
		rf.Requires = append(rf.Requires, r.Text)
	}
	for _, r := range con.Ensures {
		rf.Ensures = append(rf.Ensures, r.Text)
	}
	for _, r := range con.Panics {
		rf.PanicsWhen = append(rf.PanicsWhen, r.Text)
	}
	for _, rname := range con.Refines {
		if ic := e.findIface(fn, rname); ic != nil && fn != nil {
			// interface clauses use the interface's parameter names: alias them to the method's parameters
			rf.Aliases = map[string]string{}
			rf.ResAliases = map[string]int{}
			all := append([]string{"this"}, ic.Params...)
			for i, p := range fn.Params {
				if i < len(all) {
					rf.Aliases[all[i]] = p.Name()
				}
			}
			for i, rn := range ic.Results {
				rf.ResAliases[rn] = i
			}
			for _, r := range ic.Requires {
				rf.Requires = append(rf.Requires, r.Text)
			}
			for _, r := range ic.Ensures {
				rf.Ensures = append(rf.Ensures, r.Text)
			}
		}
	}
	shortCount := map[string]int{}
	for tn := range e.Types {
		shortCount[tn[strings.LastIndex(tn, ".")+1:]]++
	}
	for _, tn := range sortedKeys(e.Types) {
		ts := e.Types[tn]
		short := tn
		if k := strings.LastIndex(short, "."); k >= 0 {
			short = short[k+1:]
		}
		// the replay runtime matches type specs by short type name: where two packages use the same
		// name (Reader, Writer) only the one of the function's own package is passed on
		if shortCount[short] > 1 && !(rf.Package != "" && strings.HasPrefix(tn, rf.Package+".")) {
			continue
		}
		for _, v := range ts.Views {
			rf.Views = append(rf.Views, govcrt.ViewJ{Type: short, Fn: v.Fn, Params: v.Params, Body: v.Body.Text})
		}
		for _, iv := range ts.Invariants {
			rf.Invs = append(rf.Invs, govcrt.ViewJ{Type: short, Body: iv.Text})
		}
	}
	for _, n := range sortedKeys(e.SpecFuncs) {
		sf := e.SpecFuncs[n]
		if sf.Body != nil {
			rf.SpecFuncs = append(rf.SpecFuncs, govcrt.SpecFuncJ{Name: sf.Name, Params: sf.Params, Body: sf.Body.Text})
		}
	}
	res := ReplayResult{Outcome: "not-replayable"}
	save := func() ReplayResult {
		rf.Outcome = res.Outcome
		rf.ReplayLog = truncate(res.Log, 4000)
		b, _ := json.MarshalIndent(rf, "", " ")
		os.MkdirAll(filepath.Dir(rfile), 0o755)
		os.WriteFile(rfile, b, 0o644)
		return res
	}
	if fn == nil || vc == nil {
		rf.Note = "no function / VC"
		return save()
	}
	rf.Results = resultNames(con, fn.Signature)
	tgt, ok := targetExpr(fn)
	if !ok {
		rf.Note = "function is a closure or generic instance: no direct replay target"
		return save()
	}
	rf.Target = tgt
	approx := false
	if o.Result != "sat" {
		// no model: look for a candidate input with the quantified hypotheses dropped (the replay on the
		// real code is the judge, so an over-approximate candidate is harmless)
		approx = true
	}
	solver := strings.Split(o.Solver, "+")[0]
	if approx || strings.HasPrefix(solver, "z3-new") {
		solver = "z3-new"
	}
	nElems := maxElems
	// size hints: prefer small models (dropped if they make the query unsatisfiable)
	var hints []*Term
	for _, in := range vc.Inputs {
		switch in.Ty.Underlying().(type) {
		case *types.Slice:
			hints = append(hints, Le(SLen(in.T), IntLit(64)), Le(SOff(in.T), IntLit(16)), Le(SCap(in.T), IntLit(128)))
		case *types.Interface:
			if _, ok := e.ufuncs["RLen"]; ok {
				hints = append(hints, Le(App("RLen", SInt, in.T), IntLit(200)))
			}
		case *types.Pointer:
			// receiver objects with an abstract file or reader inside: keep those small as well
			if st, ok := in.Ty.Underlying().(*types.Pointer).Elem().Underlying().(*types.Struct); ok {
				for i := 0; i < st.NumFields(); i++ {
					if _, isI := st.Field(i).Type().Underlying().(*types.Interface); isI {
						pl := vc.X.fieldPlace(in.Ty.Underlying().(*types.Pointer).Elem(), i, in.T)
						if m, ok := vc.X.heap0[pl.Comp]; ok {
							f := Select(m, in.T)
							if _, ok := e.ufuncs["FLen"]; ok {
								hints = append(hints, Le(App("FLen", SInt, f), IntLit(32)))
							}
							if _, ok := e.ufuncs["RLen"]; ok {
								hints = append(hints, Le(App("RLen", SInt, f), IntLit(200)))
							}
						}
					}
					if _, isS := st.Field(i).Type().Underlying().(*types.Slice); isS {
						pl := vc.X.fieldPlace(in.Ty.Underlying().(*types.Pointer).Elem(), i, in.T)
						if m, ok := vc.X.heap0[pl.Comp]; ok {
							f := Select(m, in.T)
							hints = append(hints, Le(SLen(f), IntLit(64)), Le(SOff(f), IntLit(16)), Le(SCap(f), IntLit(128)))
						}
					}
				}
			}
		}
	}
	useHints := len(hints) > 0
	for attempt := 0; attempt < 3; attempt++ {
		var plans []*valuePlan
		var gv []*Term
		for _, in := range vc.Inputs {
			p := e.planValue(vc.X, in.T, in.Ty, 0, nElems)
			plans = append(plans, p)
			p.terms(&gv)
		}
		// drop literal terms
		var q []*Term
		seen := map[string]bool{}
		for _, t := range gv {
			if t.IsLit() {
				continue
			}
			s := t.String()
			if !seen[s] {
				seen[s] = true
				q = append(q, t)
			}
		}
		vcq := vc
		if approx {
			c := *vc
			c.Approx = true
			c.Assumes = make([]*Term, len(vc.Assumes))
			for i, a := range vc.Assumes {
				c.Assumes[i] = stripQuantified(a)
			}
			vcq = &c
		}
		var extra []*Term
		if useHints {
			extra = hints
		}
		text := e.script(vcq, o, extra, q)
		file := filepath.Join(cfg.TmpDir, "replay-"+safeName(o.Name+o.Case)+".smt2")
		os.WriteFile(file, []byte(text), 0o644)
		mt := cfg.TimeoutS
		if mt > 15 {
			mt = 15
		}
		r, out, _ := runSolver(solver, file, mt)
		if r != "sat" && useHints {
			useHints = false
			continue
		}
		if r != "sat" {
			rf.Note = "model query returned " + r
			if approx {
				rf.Note = "the solver returned " + o.Result + " and the quantifier-free candidate query returned " + r + ": no input to replay"
			}
			return save()
		}
		if approx {
			rf.Note = "candidate input from the quantifier-free approximation of the obligation (solver result on the full obligation: " + o.Result + ")"
		}
		ordered := parseGetValueOrdered(out)
		vals := map[string]string{}
		for i, t := range q {
			if i < len(ordered) {
				vals[t.String()] = ordered[i]
			}
		}
		mr := &modelReader{vals: vals, objs: map[string]*govcrt.JVal{}, arrs: map[string]bool{}}
		rf.Params = nil
		need := 0
		fail := ""
		for i, in := range vc.Inputs {
			v, why := mr.read(plans[i])
			if v == nil {
				if strings.HasPrefix(why, "need-more-elems ") {
					fmt.Sscanf(why, "need-more-elems %d", &need)
				}
				fail = in.Name + ": " + why
				break
			}
			rf.Params = append(rf.Params, govcrt.ParamVal{Name: in.Name, Value: v})
		}
		rf.Objects = mr.objs
		if fail != "" {
			if need > 0 && need <= 4096 && attempt < 2 {
				if need > nElems {
					nElems = need
				}
				continue
			}
			rf.Note = "model not replayable: " + fail
			return save()
		}
		break
	}
	b, _ := json.MarshalIndent(rf, "", " ")
	os.MkdirAll(filepath.Dir(rfile), 0o755)
	os.WriteFile(rfile, b, 0o644)
	outcome, log := RunReplay(repo, rfile, cfg.TmpDir)
	res.Outcome, res.Log = outcome, log
	res.Reproduced = strings.HasPrefix(outcome, "reproduced")
	return save()
}

func hasQuant(t *Term, seen map[*Term]bool) bool {
	if v, ok := seen[t]; ok {
		return v
	}
	r := t.Op == "forall" || t.Op == "exists"
	if !r {
		for _, a := range t.Args {
			if hasQuant(a, seen) {
				r = true
				break
			}
		}
	}
	seen[t] = r
	return r
}

// stripQuantified weakens a hypothesis by dropping its quantified conjuncts.
func stripQuantified(t *Term) *Term {
	seen := map[*Term]bool{}
	var strip func(t *Term) *Term
	strip = func(t *Term) *Term {
		if !hasQuant(t, seen) {
			return t
		}
		switch t.Op {
		case "and":
			var as []*Term
			for _, a := range t.Args {
				as = append(as, strip(a))
			}
			return And(as...)
		case "=>":
			if !hasQuant(t.Args[0], seen) {
				return Implies(t.Args[0], strip(t.Args[1]))
			}
		}
		return True
	}
	return strip(t)
}

func truncate(s string, n int) string {
	if len(s) > n {
		return s[:n] + "…"
	}
	return s
}

// RunReplay runs a replay file against the real code in repo via go test -overlay.
func RunReplay(repo, rfile, tmp string) (string, string) {
	data, err := os.ReadFile(rfile)
	if err != nil {
		return "unknown", err.Error()
	}
	var rf govcrt.ReplayFile
	if err := json.Unmarshal(data, &rf); err != nil {
		return "unknown", err.Error()
	}
	if rf.Target == "" || rf.Package == "" || len(rf.Params) == 0 && rf.Note != "" {
		return "not-replayable", rf.Note
	}
	pp := e2ePkgs(repo, rf.Package)
	if pp == nil {
		return "unknown", "package " + rf.Package + " not found under " + repo
	}
	pkgDir, pkgName := pp[0], pp[1]
	if tmp == "" {
		tmp, _ = os.MkdirTemp("", "govc-replay")
		defer os.RemoveAll(tmp)
	}
	odir, _ := os.MkdirTemp(tmp, "ov")
	vd := verifDir()
	rtDir := filepath.Join(repo, "internal", "govcrt")
	overlay := map[string]string{}
	for _, f := range []string{"expr.go", "eval.go"} {
		overlay[filepath.Join(rtDir, f)] = filepath.Join(vd, "govc", "govcrt", f)
	}
	stub := ""
	imp := ""
	if rf.Package == "github.com/wader/fq/pkg/bitio" {
		stub = "NewBitReader"
	} else {
		stub = "bitio.NewBitReader"
		imp = "\n\t\"github.com/wader/fq/pkg/bitio\""
	}
	test := fmt.Sprintf(`package %s

import (
	"bytes"
	"io"
	"reflect"
	"testing"

	"github.com/wader/fq/internal/govcrt"%s
	xtextencoding "golang.org/x/text/encoding"
)

func TestGovcReplay(t *testing.T) {
	govcrt.StubFactory = func(s *govcrt.Stub, want reflect.Type) (reflect.Value, bool) {
		if want.PkgPath() == "golang.org/x/text/encoding" && want.Name() == "Encoding" {
			// a text encoding: the identity encoding stands in for any of them
			return reflect.ValueOf(xtextencoding.Nop), true
		}
		n := len(s.Bits)
		buf := make([]byte, (n+7)/8)
		for i, c := range s.Bits {
			if c == '1' {
				buf[i/8] |= 1 << (7 - uint(i%%8))
			}
		}
		if s.Kind == "file" {
			fr := bytes.NewReader(buf)
			if s.Cur > 0 {
				_, _ = fr.Seek(s.Cur, io.SeekStart)
			}
			v := reflect.ValueOf(fr)
			if !v.Type().AssignableTo(want) {
				return reflect.Value{}, false
			}
			return v, true
		}
		r := %s(buf, int64(n))
		if s.Cur > 0 {
			_, _ = r.SeekBits(s.Cur, io.SeekStart)
		}
		v := reflect.ValueOf(r)
		if !v.Type().AssignableTo(want) {
			return reflect.Value{}, false
		}
		return v, true
	}
	govcrt.Run(%q, %s)
}
`, pkgName, imp, stub, rfile, rf.Target)
	testFile := filepath.Join(odir, "govc_replay_test.go")
	os.WriteFile(testFile, []byte(test), 0o644)
	overlay[filepath.Join(pkgDir, "govc_replay_test.go")] = testFile
	ov, _ := json.Marshal(map[string]any{"Replace": overlay})
	ovFile := filepath.Join(odir, "overlay.json")
	os.WriteFile(ovFile, ov, 0o644)
	ctx, cancel := context.WithTimeout(context.Background(), 120*time.Second)
	defer cancel()
	rel, _ := filepath.Rel(repo, pkgDir)
	cmd := exec.CommandContext(ctx, "go", "test", "-overlay", ovFile, "-vet=off", "-count=1", "-timeout", "60s", "-run", "^TestGovcReplay$", "-v", "./"+rel)
	cmd.Dir = repo
	cmd.Env = append(os.Environ(), "GOFLAGS=-mod=mod", "GOPROXY=off", "GOSUMDB=off", "GOTOOLCHAIN=local")
	var out bytes.Buffer
	cmd.Stdout = &out
	cmd.Stderr = &out
	_ = cmd.Run()
	log := out.String()
	for _, line := range strings.Split(log, "\n") {
		if strings.HasPrefix(line, "REPLAY-RESULT: ") {
			return strings.TrimPrefix(line, "REPLAY-RESULT: "), log
		}
	}
	if strings.Contains(log, "panic:") || strings.Contains(log, "fatal error:") {
		return "reproduced crash outside recover (see log)", log
	}
	return "unknown (no result line)", log
}

// e2ePkgs: directory and package name of an import path inside the repo module.
func e2ePkgs(repo, path string) []string {
	const mod = "github.com/wader/fq"
	if !strings.HasPrefix(path, mod) {
		return nil
	}
	dir := filepath.Join(repo, strings.TrimPrefix(path, mod))
	name := filepath.Base(dir)
	// package name from a go file
	ms, _ := filepath.Glob(filepath.Join(dir, "*.go"))
	re := regexp.MustCompile(`(?m)^package\s+(\w+)`)
	for _, m := range ms {
		if strings.HasSuffix(m, "_test.go") {
			continue
		}
		b, _ := os.ReadFile(m)
		if mm := re.FindSubmatch(b); mm != nil {
			name = string(mm[1])
			break
		}
	}
	return []string{dir, name}
}

func cmdReplay(args []string) int {
	repo := "/repo"
	var file string
	for i := 0; i < len(args); i++ {
		if args[i] == "--repo" || args[i] == "-repo" {
			repo = args[i+1]
			i++
			continue
		}
		file = args[i]
	}
	if file == "" {
		fmt.Fprintln(os.Stderr, "usage: govc replay [--repo dir] <replay.json>")
		return 2
	}
	outcome, log := RunReplay(repo, file, "")
	fmt.Println("replay outcome:", outcome)
	if strings.HasPrefix(outcome, "reproduced") {
		return 1
	}
	if strings.HasPrefix(outcome, "holds") || strings.HasPrefix(outcome, "invalid") {
		return 0
	}
	fmt.Println(log)
	return 0
}
